(* C09 (XSS half) — linear running time of IsXSS.

   Property: "The running time of IsSQLi and IsXSS grows at most linearly with
   the length of the input."  This file covers IsXSS: the HTML5 tokenizer
   (Html5.v) and the XSS classifier (Xss.v).

   What is proved.  Running time is not a notion of the Coq model, so the part
   that is logic is decided with a cost semantics:

     - Cost/CostHtml5.v and Cost/CostXss.v contain, for every function f of the
       model that does work, a twin c_f that mirrors f line by line and returns,
       together with f's result, the number of elementary steps it took;
     - the erasure theorems say that forgetting the step count gives back exactly
       the model's result (value or failure), so a bound on the count is a
       bound on the work of the model itself;
     - the bounds say the count is at most  K1 * len s + K0  for one tokenizer
       context and five times that for IsXSS, with explicit K1 = 1102, K0 = 792.

   The cost unit (Cost/CostBase.v).  One step is charged
     - per byte examined by a scan: strings.IndexByte (the bytes up to and
       including the hit, or all of them plus one), strings.Contains (the bytes
       up to the end of the first match, or all of them, plus the needle), the
       `for` loops over a run of bytes (the run plus the byte that stops it),
       strings.ReplaceAll / ToUpper (the whole string plus one), a string
       comparison `u == k` (len u + 1), strings.TrimLeftFunc (per byte looked at);
     - per checked index or slice expression s[i], s[i:], s[:j], s[i:j], and per
       table look-up gsHexDecodeMap[ch] (Go slices share their backing array);
     - per call of a tokenizer state function, per call of htmlDecodeByteAt, and
       per iteration of every loop (the comment / CDATA / bogus-comment loops,
       the attribute-name loop, the digit loops, the decoding loop of
       htmlEncodeStartsWith, the scheme loop, the `for h5.next()` loop);
     - per entry compared in the three fixed lists (black tags: 20 entries, black
       event names: 319, black attributes: 20), which are scanned linearly: one
       step plus one string comparison per entry.  The size of K1 (343 of its
       1102) comes from this convention: an attribute name is compared with up
       to 339 entries at len + 2 steps each.

   How the bound is obtained.
     - per tokenizer step (C09_h5_next_step): at most 8 steps per byte consumed
       plus 40 when the step emits a token and the scan goes on; at most 8 per
       byte that was left plus 40 when the step ends the scan.  None of the
       construct loops is super-linear: bogus-comment and CDATA loops continue
       right after the byte they examined; the comment loop looks at the run of
       NUL bytes behind a dash and, if the dash does not close the comment,
       continues right behind the dash, so such a run is scanned twice, never
       more (amortised in c_comment_loop_cost with the distance to the next dash).
     - per classification (C09_classify_step): at most 343 steps per byte of the
       token plus 710.  is_black_url decodes the value once per scheme (4 passes);
       in a pass, a numeric reference that overflows makes the decoder scan a run
       of digits and then consume only the '&', so the digits are visited a second
       time, one by one, never more (amortised in c_starts_with_loop_cost with the
       distance to the next '&': 14 steps per byte and pass).
     - the whole scan (C09_xss_ctx_linear): every token lowers the potential Phi
       of Proofs/H5Spec.v (at most len s + 1 tokens), bytes are consumed
       monotonically, and token texts do not overlap, so the per-step and
       per-classification costs add up to  (8 + 343 + 751) * len s + 792.

   What is not covered.
     - the relation between one cost unit and machine time: that each counted
       primitive takes time bounded by a constant times its charge in the Go
       implementation (e.g. that strings.IndexByte is linear, that a slice
       expression copies nothing) is a fact about the Go runtime, not about this
       model;
     - memory allocation (strings.ToUpper / ReplaceAll / the decoded scheme
       prefix allocate strings proportional to their input; charged as a pass);
     - IsSQLi (the other half of C09) is in the companion files of that part.

   The Examples at the end evaluate the instrumented model on input families of
   increasing length (n = 50, 100, 200): the measured cost is exactly affine in n
   on each of them (the difference doubles when n doubles), far below the proved
   worst-case constant. *)
From Coq Require Import List ZArith String Bool Lia.
From Coq.Strings Require Import Byte.
From LI Require Import Prelude Base Html5 Xss Proofs.H5Spec Proofs.XssTotal.
From LI Require Import Cost.CostBase Cost.CostHtml5 Cost.CostXss Cost.CostHtmlProofs.
Import ListNotations.
Local Open Scope Z_scope.

(* ---------- erasure: the instrumented model computes the model ---------- *)

Theorem C09_h5_next_erasure : forall h, erase (c_h5_next h) = h5_next h.
Proof. exact erase_h5_next. Qed.

Theorem C09_h5_tokens_erasure : forall s fl, erase (c_h5_tokens s fl) = h5_tokens s fl.
Proof. exact erase_h5_tokens. Qed.

Theorem C09_classify_erasure : forall h attr, erase (c_classify h attr) = classify h attr.
Proof. exact erase_classify. Qed.

Theorem C09_xss_ctx_erasure : forall s fl, erase (c_xss_ctx s fl) = xss_ctx s fl.
Proof. exact erase_xss_ctx. Qed.

Theorem C09_is_xss_erasure : forall s, erase (c_is_xss s) = is_xss s.
Proof. exact erase_is_xss. Qed.

(* ---------- per-step bounds ---------- *)

(* one call of h5.next(): 8 steps per byte consumed + 40 (8 per byte left + 40 when the scan ends) *)
Theorem C09_h5_next_step : forall h more h' c,
  h5_ok h -> c_h5_next h = Ok ((more, h'), c) ->
  c <= 8 * (hlen h - hpos h) + 40 /\
  (more = true -> hstate h' <> SEOF -> c <= 8 * (hpos h' - hpos h) + 40).
Proof. exact c_h5_next_bound. Qed.

Theorem C09_h5_next_step_cost : forall h, h5_ok h -> cost_of (c_h5_next h) <= 8 * (hlen h - hpos h) + 40.
Proof. exact c_h5_next_cost_le. Qed.

(* one pass of the body of the `for h5.next()` loop: 343 steps per byte of the token + 710 *)
Theorem C09_classify_step : forall h attr,
  0 <= tok_len h -> cost_of (c_classify h attr) <= 343 * tok_len h + 710.
Proof. exact c_classify_bound. Qed.

(* ---------- the whole ---------- *)

(* the tokenizer alone *)
Theorem C09_h5_tokens_linear : forall s fl, 0 <= fl <= 4 ->
  cost_of (c_h5_tokens s fl) <= 49 * len s + 82.
Proof. exact c_h5_tokens_cost. Qed.

(* isXSS(input, flags) *)
Theorem C09_xss_ctx_linear : forall s fl, 0 <= fl <= 4 ->
  cost_of (c_xss_ctx s fl) <= 1102 * len s + 792.
Proof. exact c_xss_ctx_cost. Qed.

(* IsXSS(input): the five contexts *)
Theorem C09_is_xss_linear : forall s, cost_of (c_is_xss s) <= 5510 * len s + 3960.
Proof. exact c_is_xss_cost. Qed.

(* the same, together with totality and erasure: IsXSS returns its verdict b after at most
   5510 * len s + 3960 steps *)
Theorem C09_is_xss : forall s, exists b c,
  c_is_xss s = Ok (b, c) /\ is_xss s = Ok b /\ c <= 5510 * len s + 3960.
Proof.
  intros s. destruct (is_xss_total s) as [b E].
  pose proof (erase_is_xss s) as ER. rewrite E in ER.
  destruct (erase_Ok_inv _ _ ER) as [c EC].
  exists b, c. split; [exact EC|]. split; [exact E|].
  pose proof (c_is_xss_cost s) as B. rewrite EC in B. exact B.
Qed.

Print Assumptions C09_is_xss_erasure.
Print Assumptions C09_h5_next_step.
Print Assumptions C09_classify_step.
Print Assumptions C09_h5_tokens_linear.
Print Assumptions C09_xss_ctx_linear.
Print Assumptions C09_is_xss_linear.
Print Assumptions C09_is_xss.

(* ---------- measured costs ---------- *)

Definition rep (n : nat) (x : bytes) : bytes := List.concat (List.repeat x n).
Definition xcost (s : bytes) : Z := cost_of (c_is_xss s).

(* '<' * n *)
Definition fam_lt (n : nat) : bytes := rep n (bs "<").
(* an unterminated comment made of dashes *)
Definition fam_comment (n : nat) : bytes := bs "<!--" ++ rep n (bs "-").
(* an unterminated quoted attribute value *)
Definition fam_quote (n : nat) : bytes := bs "<a b='" ++ rep n (bs "x").
(* a URL attribute whose value is n numeric character references *)
Definition fam_href (n : nat) : bytes := bs "<a href=" ++ rep n (bs "&#x6a;").
(* the comment loop's re-scan: n dashes, each followed by a run of NUL bytes *)
Definition fam_comment_nul (n : nat) : bytes := bs "<!--" ++ rep n [x2d; x00; x00; x00].
(* the decoder's re-scan: one overflowing reference with n leading zeros *)
Definition fam_overflow (n : nat) : bytes := bs "<a href=&#x" ++ rep n (bs "0") ++ bs "FFFFFF".
(* n references cut short by the next '&' *)
Definition fam_refs (n : nat) : bytes := bs "<a href=" ++ rep n (bs "&#x0").

Example cost_lt :
  (len (fam_lt 50), xcost (fam_lt 50)) = (50, 1931) /\
  (len (fam_lt 100), xcost (fam_lt 100)) = (100, 3781) /\
  (len (fam_lt 200), xcost (fam_lt 200)) = (200, 7481).
Proof. vm_compute. repeat split. Qed.

Example cost_comment :
  (len (fam_comment 50), xcost (fam_comment 50)) = (54, 2057) /\
  (len (fam_comment 100), xcost (fam_comment 100)) = (104, 3857) /\
  (len (fam_comment 200), xcost (fam_comment 200)) = (204, 7457).
Proof. vm_compute. repeat split. Qed.

Example cost_quote :
  (len (fam_quote 50), xcost (fam_quote 50)) = (56, 1723) /\
  (len (fam_quote 100), xcost (fam_quote 100)) = (106, 3173) /\
  (len (fam_quote 200), xcost (fam_quote 200)) = (206, 6073).
Proof. vm_compute. repeat split. Qed.

Example cost_href :
  (len (fam_href 50), xcost (fam_href 50)) = (308, 7576) /\
  (len (fam_href 100), xcost (fam_href 100)) = (608, 14676) /\
  (len (fam_href 200), xcost (fam_href 200)) = (1208, 28876).
Proof. vm_compute. repeat split. Qed.

Example cost_comment_nul :
  (len (fam_comment_nul 50), xcost (fam_comment_nul 50)) = (204, 3251) /\
  (len (fam_comment_nul 100), xcost (fam_comment_nul 100)) = (404, 6251) /\
  (len (fam_comment_nul 200), xcost (fam_comment_nul 200)) = (804, 12251).
Proof. vm_compute. repeat split. Qed.

Example cost_overflow :
  (len (fam_overflow 50), xcost (fam_overflow 50)) = (67, 4483) /\
  (len (fam_overflow 100), xcost (fam_overflow 100)) = (117, 7933) /\
  (len (fam_overflow 200), xcost (fam_overflow 200)) = (217, 14833).
Proof. vm_compute. repeat split. Qed.

Example cost_refs :
  (len (fam_refs 50), xcost (fam_refs 50)) = (208, 5860) /\
  (len (fam_refs 100), xcost (fam_refs 100)) = (408, 11260) /\
  (len (fam_refs 200), xcost (fam_refs 200)) = (808, 22060).
Proof. vm_compute. repeat split. Qed.

(* doubling n doubles the increment: the measured cost is affine in n on every family *)
Example cost_ratio :
  xcost (fam_lt 200) - xcost (fam_lt 100) = 2 * (xcost (fam_lt 100) - xcost (fam_lt 50)) /\
  xcost (fam_comment 200) - xcost (fam_comment 100) = 2 * (xcost (fam_comment 100) - xcost (fam_comment 50)) /\
  xcost (fam_quote 200) - xcost (fam_quote 100) = 2 * (xcost (fam_quote 100) - xcost (fam_quote 50)) /\
  xcost (fam_href 200) - xcost (fam_href 100) = 2 * (xcost (fam_href 100) - xcost (fam_href 50)) /\
  xcost (fam_comment_nul 200) - xcost (fam_comment_nul 100)
    = 2 * (xcost (fam_comment_nul 100) - xcost (fam_comment_nul 50)) /\
  xcost (fam_overflow 200) - xcost (fam_overflow 100) = 2 * (xcost (fam_overflow 100) - xcost (fam_overflow 50)) /\
  xcost (fam_refs 200) - xcost (fam_refs 100) = 2 * (xcost (fam_refs 100) - xcost (fam_refs 50)).
Proof. vm_compute. repeat split. Qed.

(* the measured cost per byte stays below 70 on these inputs; the proved worst case is 5510 *)
Example cost_vs_bound :
  xcost (fam_href 200) <= 24 * len (fam_href 200) /\
  xcost (fam_overflow 200) <= 69 * len (fam_overflow 200) /\
  xcost (fam_lt 200) <= 38 * len (fam_lt 200).
Proof. vm_compute. repeat split; discriminate. Qed.
