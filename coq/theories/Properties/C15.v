(* C15 — an input with no '<' and no '=' is never reported as XSS.

   In plain words: take any byte string that contains neither the less-than
   sign (0x3C) nor the equals sign (0x3D).  It may contain anything else:
   single, double and back quotes, '>', '/', spaces, NUL bytes, bytes >= 0x80,
   HTML entities such as &#x3c; or &#61; (they are NOT decoded by the
   tokenizer, so they do not count as '<' or '='), event-handler words
   (onerror, onload ...), dangerous attribute names (style, xmlns, href ...),
   dangerous tag names (script, iframe ...), `javascript:` and other URL
   schemes, comment / doctype / CDATA / processing-instruction look-alikes
   ("!--", "!DOCTYPE", "[CDATA[", "?xml", "%>").  Then

     C15_no_lt_no_eq_not_xss      is_xss s = Ok false
                                  (IsXSS answers "not XSS"; it does not panic,
                                  run out of fuel or overflow the call budget);
     C15_no_lt_no_eq_ctx          the same for each of the five parsing
                                  contexts separately (flags 0..4: data state,
                                  unquoted / single- / double- / back-quoted
                                  attribute value): xss_ctx s fl = Ok false;
     C15_no_lt_no_eq_not_xss_b    the first statement with the hypothesis
                                  written as the boolean test `no_lt_eq_b s`.

   Why (proved in Proofs/NoLtEq.v as an invariant of the token loop):
     - Without '<' the data state never finds a tag opener: it emits the rest
       of the input as one text token and stops.  So no tag name, comment,
       doctype, CDATA section or bogus comment is ever tokenized.
     - The attribute-value contexts start inside a tag.  There the tokenizer
       only moves between "before attribute name", "attribute name", "after
       attribute name", "self-closing start tag", "tag close", "after quoted
       attribute value", "data" and "end of input"; the states "before
       attribute value" / "unquoted attribute value" are entered only after
       an '=' has been read, which never happens.
     - Hence the only tokens emitted are text, attribute names, tag closers
       and self-closers, on which the classifier never raises an alarm (an
       attribute NAME alone, even `onerror` or `style`, is only remembered; the
       alarm needs a following attribute VALUE token).
     - The single exception is the very first token of the three quoted
       contexts, which is an attribute value (the text up to the closing
       quote).  It is judged with the initial attribute type "none", for
       which the classifier answers "no alarm".

   The examples at the end check inputs full of quotes, '>', '/', event names,
   `javascript:` and entities in every context, and show that the hypothesis is
   needed: inserting a single '=' or a single '<' makes the same text an XSS
   hit. *)
From Coq Require Import List ZArith String Bool.
From Coq.Strings Require Import Byte.
From LI Require Import Prelude Base Html5 Xss Proofs.NoLtEq.
Import ListNotations.
Local Open Scope Z_scope.

Theorem C15_no_lt_no_eq_ctx : forall s fl,
  (forall b, In b s -> b <> x3c /\ b <> x3d) -> 0 <= fl <= 4 -> xss_ctx s fl = Ok false.
Proof. exact xss_ctx_no_lt_no_eq. Qed.

Theorem C15_no_lt_no_eq_not_xss : forall s,
  (forall b, In b s -> b <> x3c /\ b <> x3d) -> is_xss s = Ok false.
Proof. exact is_xss_no_lt_no_eq. Qed.

(* no_lt_eq_b s = forallb (fun b => negb (beq b x3c) && negb (beq b x3d)) s *)
Theorem C15_no_lt_no_eq_not_xss_b : forall s, no_lt_eq_b s = true -> is_xss s = Ok false.
Proof. exact is_xss_no_lt_no_eq_b. Qed.

Theorem C15_no_lt_eq_b_spec : forall s,
  no_lt_eq_b s = true <-> (forall b, In b s -> b <> x3c /\ b <> x3d).
Proof. exact no_lt_eq_b_spec. Qed.

Print Assumptions C15_no_lt_no_eq_ctx.
Print Assumptions C15_no_lt_no_eq_not_xss.
Print Assumptions C15_no_lt_no_eq_not_xss_b.

(* ---------- examples ---------- *)

Local Open Scope string_scope.

(* the verdicts of the five contexts, then the overall verdict *)
Definition verdicts (s : bytes) : list (res bool) * res bool :=
  (map (xss_ctx s) [0; 1; 2; 3; 4], is_xss s).
Definition all_clear : list (res bool) * res bool :=
  ([Ok false; Ok false; Ok false; Ok false; Ok false], Ok false).

Definition ex1 := bs "x"" onerror'javascript:alert(1)`> /> &#x3c;script&#62; style "" ' ` >".
Definition ex2 := bs "'> onload javascript:alert(1) // "">`>&#60;img src&#61;x onerror&#x3d;alert(1)/>".
Definition ex3 := bs "script> /script> !--[if xml import ]]> ?xml %> onmouseover xmlns style href".

Example C15_ex1_hyp : no_lt_eq_b ex1 = true. Proof. vm_compute. reflexivity. Qed.
Example C15_ex1 : verdicts ex1 = all_clear. Proof. vm_compute. reflexivity. Qed.
Example C15_ex2_hyp : no_lt_eq_b ex2 = true. Proof. vm_compute. reflexivity. Qed.
Example C15_ex2 : verdicts ex2 = all_clear. Proof. vm_compute. reflexivity. Qed.
Example C15_ex3_hyp : no_lt_eq_b ex3 = true. Proof. vm_compute. reflexivity. Qed.
Example C15_ex3 : verdicts ex3 = all_clear. Proof. vm_compute. reflexivity. Qed.

(* the theorem applied to a concrete input *)
Example C15_ex1_by_theorem : is_xss ex1 = Ok false.
Proof. apply C15_no_lt_no_eq_not_xss_b. vm_compute. reflexivity. Qed.

(* the hypothesis is needed: one '=' added to ex1 (after onerror) *)
Definition nb1 := bs "x"" onerror='javascript:alert(1)`> /> &#x3c;script&#62; style "" ' ` >".
Example C15_nb1_hyp : no_lt_eq_b nb1 = false. Proof. vm_compute. reflexivity. Qed.
Example C15_nb1 : verdicts nb1 = ([Ok false; Ok true; Ok false; Ok true; Ok false], Ok true).
Proof. vm_compute. reflexivity. Qed.

(* one '<' added in front of ex3 *)
Definition nb2 := bs "<script> /script> !--[if xml import ]]> ?xml %> onmouseover xmlns style href".
Example C15_nb2_hyp : no_lt_eq_b nb2 = false. Proof. vm_compute. reflexivity. Qed.
Example C15_nb2 : verdicts nb2 = ([Ok true; Ok false; Ok false; Ok false; Ok false], Ok true).
Proof. vm_compute. reflexivity. Qed.

(* the smallest pair: a blank against an '=' *)
Example C15_nb3_clear : verdicts (bs "x onerror 1") = all_clear. Proof. vm_compute. reflexivity. Qed.
Example C15_nb3_hit : verdicts (bs "x onerror=1") = ([Ok false; Ok true; Ok false; Ok false; Ok false], Ok true).
Proof. vm_compute. reflexivity. Qed.

(* a quoted-context break-out needs the '=' too *)
Example C15_nb4_clear : verdicts (bs "' onload alert(1) ") = all_clear. Proof. vm_compute. reflexivity. Qed.
Example C15_nb4_hit : verdicts (bs "' onload=alert(1) ") = ([Ok false; Ok true; Ok true; Ok false; Ok false], Ok true).
Proof. vm_compute. reflexivity. Qed.

(* a comment needs the '<' *)
Example C15_nb5_clear : verdicts (bs "!--[if xml") = all_clear. Proof. vm_compute. reflexivity. Qed.
Example C15_nb5_hit : verdicts (bs "<!--[if xml") = ([Ok true; Ok false; Ok false; Ok false; Ok false], Ok true).
Proof. vm_compute. reflexivity. Qed.
