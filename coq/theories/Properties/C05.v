(* C05 — both detectors are thread-safe and pure (the part that is logic).

   (1) a generated fact about the Go source, regenerated on every run
       (gen/Effects.v): no package-level variable is written, address-taken or
       passed to an external pointer-receiver method after initialisation — neither
       directly nor through a local variable or parameter that may alias a package-level
       slice / map / pointer (flow-insensitive may-alias analysis across the package) —, the
       package imports only strings/bytes, and uses no go/chan/select/sync/
       unsafe/reflect/runtime/os/time;
   (2) the interleaving theorem for threads that share only immutable data,
       instantiated with the model's detectors: under every schedule every
       call returns what the pure function returns for its own input.
   What is not proved: the Go memory model / runtime (see DESIGN.md 7.5). *)
From Coq Require Import List ZArith String Bool Arith.
From Coq.Strings Require Import Byte.
From LI Require Import Prelude Base SqliLex SqliFold Html5 Xss Spec.Interleave.
From LIGen Require Import Effects.
Import ListNotations.

Theorem C05_no_shared_writes :
  post_init_writes = [] /\
  concurrency_or_ambient_state = [] /\
  incl imports ["bytes"%string; "strings"%string].
Proof.
  split; [reflexivity|]. split; [reflexivity|].
  intros x Hx. vm_compute in Hx. vm_compute. tauto.
Qed.
Print Assumptions C05_no_shared_writes.

(* the model's two entry points as one-step calls over a private state (the input) *)
Definition detect (s : bytes) : res (bool * bytes) * res bool := (is_sqli s, is_xss s).
Definition call_step (s : bytes) : bytes + (res (bool * bytes) * res bool) := inr (detect s).

Theorem C05_interleaving_pure :
  forall (inputs : list bytes) (sched : list nat) (i : nat) (s : bytes),
    nth_error inputs i = Some s ->
    1 <= count i sched ->
    nth_error (exec _ _ call_step sched (map inl inputs)) i = Some (inr (detect s)).
Proof.
  intros inputs sched i s H Hc.
  apply (exec_result _ _ call_step sched (map inl inputs) i s 1 (detect s)).
  - rewrite nth_error_map, H. reflexivity.
  - reflexivity.
  - exact Hc.
Qed.
Print Assumptions C05_interleaving_pure.

(* generic form, for any finer-grained step function: see Spec/Interleave.v *)
Theorem C05_interleaving_generic :
  forall (St Res : Type) (step : St -> St + Res) sched ts i t,
    nth_error ts i = Some t ->
    nth_error (exec St Res step sched ts) i = Some (iter St Res step (count i sched) t).
Proof. exact exec_thread. Qed.
Print Assumptions C05_interleaving_generic.

Example C05_nonvacuous :
  nth_error (exec _ _ call_step [1; 0; 1; 0]%nat (map inl [bs "1' or 1=1--"; bs "<script>"])) 0
  = Some (inr (Ok (true, bs "s&1c"), Ok false)).
Proof. vm_compute. reflexivity. Qed.
