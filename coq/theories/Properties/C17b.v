(* C17(b) — every delimited HTML construct ends at the FIRST occurrence of its
   terminator; the token is exactly the bytes between opener and terminator;
   afterwards the tokenizer continues right behind the terminator; without a
   terminator the token runs to the end of the input and the tokenizer stops.

   The oracles (Spec/H5TermSpec.v and Spec/StringSpec.v; structurally recursive
   over the bytes, no indices, no fuel, no errors):

     first_match pat l     first offset at which the byte sequence pat occurs
                           in l (None: nowhere).  pat_pct_gt = "%>",
                           pat_cdata_end = "]]>".
     first_byte c l        = first_match [c] l; it is strings.IndexByte
                           (C17b_first_byte_index).
     comment_end l         Some (i, w): the first comment terminator of l starts
                           at offset i and is w bytes long.  A terminator is
                             '-'  (NUL)*  ('-' | '!')  '>'
                           so "-->", "-!>", "-\000->", "-\000\000!>" all close a
                           comment, and w = 3 + number of NULs.  None: no
                           complete terminator anywhere in l.
     body h                the input from the current position on
                           (skipn (hpos h) (hs h)).
     delimited h cpos ty next w eofpos close
                           the tokenizer state after the construct whose
                           content starts at absolute offset cpos:
                             close = Some i : token = (type ty, offset cpos,
                               length i), position cpos + i + w (right behind
                               the w-byte terminator), state `next`;
                             close = None : token = (ty, cpos, |input| - cpos),
                               position eofpos, state SEOF (the next call
                               reports "no more tokens": C17b_eof_stops);
                           input and is_close flag unchanged
                           (C17b_closed_fields / C17b_unclosed_fields spell the
                           record fields out).
     delimited_comment     the same with the pair (i, w) from comment_end and
                           next = SData.
     md_classify body      which opener follows "<!": "doctype" in any ASCII
                           case / "[CDATA[" exactly / "--" / anything else.

   What the theorems say.  All are equations `model call = Ok (true, state)`,
   for every call depth >= 1 (loops: their own loop_fuel), so they also say: no
   Panic, no OutOfFuel, no StackOverflow, and a token is reported.
   Hypothesis everywhere: 0 <= hpos h <= hlen h, hpos pointing just behind
   the opener (the theorems do not look at what is in front of hpos).

     C17b_bogus_comment2   <% .. %>   : first "%>", width 2, type TAG_COMMENT,
                           then SData; unterminated: position = |input|.
     C17b_cdata            <![CDATA[ .. ]]> : first "]]>", width 3, type
                           DATA_TEXT, then SData; unterminated: position stays.
     C17b_comment          <!-- .. --> : comment_end, type TAG_COMMENT, then
                           SData; unterminated: position stays.
     C17b_bogus_comment    <!x .. >  <? .. >  </1 .. > : first '>', width 1, type
                           TAG_COMMENT, then SData; unterminated: position = |input|.
     C17b_doctype          <!doctype .. > : first '>', width 1, type DOCTYPE
                           (the token includes the word "doctype"), then SData;
                           unterminated: position stays.
     C17b_quoted_value     '..'  ".."  `..` attribute values: first matching
                           quote byte, width 1, type ATTR_VALUE; the state
                           afterwards is SAfterAttributeValueQuoted (still
                           inside the tag, NOT SData); the value starts at
                           value_start h = hpos + 1 when hpos > 0 (the byte at
                           hpos, the opening quote, is stepped over unseen) and
                           at 0 when hpos = 0 (quoted context: the opening
                           quote is outside the input);
     C17b_quoted_value_context / C17b_quoted_value_in_tag : the two cases.
     C17b_quoted_value_at_end_panics : why value_start h <= hlen h is assumed
                           (never violated by the tokenizer's own dispatch).
     C17b_markup_dispatch  the state after "<!" continues (one call deeper) as
                           SDoctype at hpos / SCData at hpos+7 / SComment at
                           hpos+2 / SBogusComment at hpos, by md_classify;
     C17b_md_doctype, C17b_md_cdata, C17b_md_comment : md_classify read as
                           list decompositions; in particular Go's
                           strings.ToLower with its non-ASCII foldings (Kelvin
                           sign, dotted I) accepts exactly the 2^7 ASCII case
                           variants of "doctype".
     C17b_markup_doctype / _cdata / _comment / _bogus : dispatch composed with
                           the construct (depth >= 2).
     C17b_bogus2_loop, C17b_cdata_loop, C17b_comment_loop : the loops started
                           at any p >= hpos with fuel > |input| - p return
                           (p - hpos) + the oracle on the bytes from p on: what
                           the loop finds next is the first terminator at or
                           after p.
     C17b_first_match_Some / _None, C17b_comment_end_Some / _None,
     C17b_comment_end_range : the oracles return an occurrence of the
                           terminator and none (of any width) starts earlier;
                           None iff there is no occurrence at all.

   Consequences worth knowing (Examples below): "<!--a--!>b" yields the
   comment "a-" (the terminator is "-!>", found at the second dash), and
   "-\000->" closes a comment.  The end-of-input give-ups of the Go loop
   (dash with fewer than two bytes behind it, NUL run reaching the end, input
   ending right after the '-'/'!' marker) all coincide with "no terminator in
   the rest of the input", which is why the oracle needs no special cases.

   Not covered here: unquoted attribute values and tag/attribute names (they
   end at a byte class, not a terminator: C17a), the reachability of these
   states from SData (only the examples run the whole tokenizer), and what
   the XSS checker does with the tokens. *)
From Coq Require Import List ZArith String Bool.
From Coq.Strings Require Import Byte.
From LI Require Import Prelude Base Html5 Spec.StringSpec Proofs.StringProofs
  Spec.H5TermSpec Proofs.H5TermProofs.
From LIGen Require Import Consts.
Import ListNotations.
Local Open Scope Z_scope.

(* ---------- the constructs ---------- *)

Theorem C17b_bogus_comment2 d h :
  0 <= hpos h <= hlen h ->
  h5_call (S d) SBogusComment2 h
  = Ok (true, delimited h (hpos h) c_html5_type_tag_comment SData 2 (hlen h)
                (first_match pat_pct_gt (body h))).
Proof. exact (bogus_comment2_term d h). Qed.
Print Assumptions C17b_bogus_comment2.

Theorem C17b_cdata d h :
  0 <= hpos h <= hlen h ->
  h5_call (S d) SCData h
  = Ok (true, delimited h (hpos h) c_html5_type_data_text SData 3 (hpos h)
                (first_match pat_cdata_end (body h))).
Proof. exact (cdata_term d h). Qed.
Print Assumptions C17b_cdata.

Theorem C17b_comment d h :
  0 <= hpos h <= hlen h ->
  h5_call (S d) SComment h
  = Ok (true, delimited_comment h (hpos h) c_html5_type_tag_comment (hpos h)
                (comment_end (body h))).
Proof. exact (comment_term d h). Qed.
Print Assumptions C17b_comment.

Theorem C17b_bogus_comment d h :
  0 <= hpos h <= hlen h ->
  h5_call (S d) SBogusComment h
  = Ok (true, delimited h (hpos h) c_html5_type_tag_comment SData 1 (hlen h)
                (first_byte x3e (body h))).
Proof. exact (bogus_comment_term d h). Qed.
Print Assumptions C17b_bogus_comment.

Theorem C17b_doctype d h :
  0 <= hpos h <= hlen h ->
  h5_call (S d) SDoctype h
  = Ok (true, delimited h (hpos h) c_html5_type_doc_type SData 1 (hpos h)
                (first_byte x3e (body h))).
Proof. exact (doctype_term d h). Qed.
Print Assumptions C17b_doctype.

Theorem C17b_quoted_value d f h :
  is_quote_state f ->
  0 <= hpos h -> value_start h <= hlen h ->
  h5_call (S d) f h
  = Ok (true, delimited h (value_start h) c_html5_type_attr_value SAfterAttributeValueQuoted 1
                (value_start h)
                (first_byte (quote_of f) (skipn (Z.to_nat (value_start h)) (hs h)))).
Proof. exact (quoted_value_term d f h). Qed.
Print Assumptions C17b_quoted_value.

Theorem C17b_quoted_value_context d f h :
  is_quote_state f -> hpos h = 0 ->
  h5_call (S d) f h
  = Ok (true, delimited h 0 c_html5_type_attr_value SAfterAttributeValueQuoted 1 0
                (first_byte (quote_of f) (hs h))).
Proof. exact (quoted_value_term_context d f h). Qed.
Print Assumptions C17b_quoted_value_context.

Theorem C17b_quoted_value_in_tag d f h :
  is_quote_state f -> 0 < hpos h < hlen h ->
  h5_call (S d) f h
  = Ok (true, delimited h (hpos h + 1) c_html5_type_attr_value SAfterAttributeValueQuoted 1 (hpos h + 1)
                (first_byte (quote_of f) (skipn (Z.to_nat (hpos h + 1)) (hs h)))).
Proof. exact (quoted_value_term_in_tag d f h). Qed.
Print Assumptions C17b_quoted_value_in_tag.

Theorem C17b_quoted_value_at_end_panics d f h :
  is_quote_state f -> 0 < hpos h -> hpos h = hlen h ->
  h5_call (S d) f h = Panic "stateAttributeValueQuote:s[pos:]".
Proof. exact (quoted_value_at_end_panics d f h). Qed.
Print Assumptions C17b_quoted_value_at_end_panics.

(* ---------- after "<!" ---------- *)

Theorem C17b_markup_dispatch d h :
  0 <= hpos h <= hlen h ->
  h5_call (S d) SMarkupDeclarationOpen h
  = match md_classify (body h) with
    | MdDoctype => h5_call d SDoctype h
    | MdCData => h5_call d SCData (with_pos h (hpos h + 7))
    | MdComment => h5_call d SComment (with_pos h (hpos h + 2))
    | MdBogus => h5_call d SBogusComment h
    end.
Proof. exact (markup_declaration_open_dispatch d h). Qed.
Print Assumptions C17b_markup_dispatch.

Theorem C17b_md_doctype bd :
  md_classify bd = MdDoctype <-> exists w post, bd = w ++ post /\ map lower_ascii w = bs "doctype".
Proof. exact (md_classify_doctype bd). Qed.
Print Assumptions C17b_md_doctype.

Theorem C17b_md_cdata bd : md_classify bd = MdCData <-> exists post, bd = bs "[CDATA[" ++ post.
Proof. exact (md_classify_cdata bd). Qed.
Print Assumptions C17b_md_cdata.

Theorem C17b_md_comment bd : md_classify bd = MdComment <-> exists post, bd = bs "--" ++ post.
Proof. exact (md_classify_comment bd). Qed.
Print Assumptions C17b_md_comment.

Theorem C17b_markup_doctype d h :
  0 <= hpos h <= hlen h -> md_classify (body h) = MdDoctype ->
  h5_call (S (S d)) SMarkupDeclarationOpen h
  = Ok (true, delimited h (hpos h) c_html5_type_doc_type SData 1 (hpos h)
                (first_byte x3e (body h))).
Proof. exact (markup_doctype_term d h). Qed.
Print Assumptions C17b_markup_doctype.

Theorem C17b_markup_cdata d h :
  0 <= hpos h <= hlen h -> md_classify (body h) = MdCData ->
  h5_call (S (S d)) SMarkupDeclarationOpen h
  = Ok (true, delimited h (hpos h + 7) c_html5_type_data_text SData 3 (hpos h + 7)
                (first_match pat_cdata_end (skipn (Z.to_nat (hpos h + 7)) (hs h)))).
Proof. exact (markup_cdata_term d h). Qed.
Print Assumptions C17b_markup_cdata.

Theorem C17b_markup_comment d h :
  0 <= hpos h <= hlen h -> md_classify (body h) = MdComment ->
  h5_call (S (S d)) SMarkupDeclarationOpen h
  = Ok (true, delimited_comment h (hpos h + 2) c_html5_type_tag_comment (hpos h + 2)
                (comment_end (skipn (Z.to_nat (hpos h + 2)) (hs h)))).
Proof. exact (markup_comment_term d h). Qed.
Print Assumptions C17b_markup_comment.

Theorem C17b_markup_bogus d h :
  0 <= hpos h <= hlen h -> md_classify (body h) = MdBogus ->
  h5_call (S (S d)) SMarkupDeclarationOpen h
  = Ok (true, delimited h (hpos h) c_html5_type_tag_comment SData 1 (hlen h)
                (first_byte x3e (body h))).
Proof. exact (markup_bogus_term d h). Qed.
Print Assumptions C17b_markup_bogus.

(* ---------- the loops, from any position and with any sufficient fuel ---------- *)

Theorem C17b_bogus2_loop fuel h p :
  0 <= hpos h <= p -> p <= hlen h -> hlen h - p < Z.of_nat fuel ->
  bogus2_loop fuel h p
  = Ok (true, delimited h (hpos h) c_html5_type_tag_comment SData 2 (hlen h)
                (option_map (Z.add (p - hpos h))
                   (first_match pat_pct_gt (skipn (Z.to_nat p) (hs h))))).
Proof. exact (bogus2_loop_spec fuel h p). Qed.
Print Assumptions C17b_bogus2_loop.

Theorem C17b_cdata_loop fuel h p :
  0 <= hpos h <= p -> p <= hlen h -> hlen h - p < Z.of_nat fuel ->
  cdata_loop fuel h p
  = Ok (true, delimited h (hpos h) c_html5_type_data_text SData 3 (hpos h)
                (option_map (Z.add (p - hpos h))
                   (first_match pat_cdata_end (skipn (Z.to_nat p) (hs h))))).
Proof. exact (cdata_loop_spec fuel h p). Qed.
Print Assumptions C17b_cdata_loop.

Theorem C17b_comment_loop fuel h p :
  0 <= hpos h <= p -> p <= hlen h -> hlen h - p < Z.of_nat fuel ->
  comment_loop fuel h p
  = Ok (true, delimited_comment h (hpos h) c_html5_type_tag_comment (hpos h)
                (shift (p - hpos h) (comment_end (skipn (Z.to_nat p) (hs h))))).
Proof. exact (comment_loop_spec fuel h p). Qed.
Print Assumptions C17b_comment_loop.

(* ---------- what the oracles mean ---------- *)

Theorem C17b_first_match_Some pat l i :
  first_match pat l = Some i <-> (occurs_at pat l i /\ forall j, j < i -> ~ occurs_at pat l j).
Proof. exact (first_match_Some pat l i). Qed.
Print Assumptions C17b_first_match_Some.

Theorem C17b_first_match_None pat l : first_match pat l = None <-> forall j, ~ occurs_at pat l j.
Proof. exact (first_match_None pat l). Qed.
Print Assumptions C17b_first_match_None.

Theorem C17b_first_byte_index c l :
  first_byte c l = if index_byte l c =? -1 then None else Some (index_byte l c).
Proof. exact (first_byte_index c l). Qed.
Print Assumptions C17b_first_byte_index.

Theorem C17b_comment_end_Some l i w :
  comment_end l = Some (i, w) <->
  (comment_term_at l i w /\ forall j w', j < i -> ~ comment_term_at l j w').
Proof. exact (comment_end_Some l i w). Qed.
Print Assumptions C17b_comment_end_Some.

Theorem C17b_comment_end_None l : comment_end l = None <-> forall j w, ~ comment_term_at l j w.
Proof. exact (comment_end_None l). Qed.
Print Assumptions C17b_comment_end_None.

Theorem C17b_comment_end_range l i w : comment_end l = Some (i, w) -> 0 <= i /\ 3 <= w /\ i + w <= len l.
Proof. exact (comment_end_range l i w). Qed.
Print Assumptions C17b_comment_end_range.

(* ---------- the fields of the resulting state ---------- *)

Theorem C17b_closed_fields h cpos ty next w eofpos i :
  let h' := delimited h cpos ty next w eofpos (Some i) in
  hs h' = hs h /\ is_close h' = is_close h /\ tok_off h' = cpos /\ tok_type h' = ty /\
  tok_len h' = i /\ hpos h' = cpos + i + w /\ hstate h' = next.
Proof. exact (delimited_closed h cpos ty next w eofpos i). Qed.
Print Assumptions C17b_closed_fields.

Theorem C17b_unclosed_fields h cpos ty next w eofpos :
  let h' := delimited h cpos ty next w eofpos None in
  hs h' = hs h /\ is_close h' = is_close h /\ tok_off h' = cpos /\ tok_type h' = ty /\
  tok_len h' = hlen h - cpos /\ hpos h' = eofpos /\ hstate h' = SEOF.
Proof. exact (delimited_unclosed h cpos ty next w eofpos). Qed.
Print Assumptions C17b_unclosed_fields.

Theorem C17b_comment_closed_fields h cpos ty eofpos i w :
  let h' := delimited_comment h cpos ty eofpos (Some (i, w)) in
  hs h' = hs h /\ is_close h' = is_close h /\ tok_off h' = cpos /\ tok_type h' = ty /\
  tok_len h' = i /\ hpos h' = cpos + i + w /\ hstate h' = SData.
Proof. exact (delimited_comment_closed h cpos ty eofpos i w). Qed.
Print Assumptions C17b_comment_closed_fields.

Theorem C17b_comment_unclosed_fields h cpos ty eofpos :
  let h' := delimited_comment h cpos ty eofpos None in
  hs h' = hs h /\ is_close h' = is_close h /\ tok_off h' = cpos /\ tok_type h' = ty /\
  tok_len h' = hlen h - cpos /\ hpos h' = eofpos /\ hstate h' = SEOF.
Proof. exact (delimited_comment_unclosed h cpos ty eofpos). Qed.
Print Assumptions C17b_comment_unclosed_fields.

Theorem C17b_eof_stops h : hstate h = SEOF -> h5_next h = Ok (false, h).
Proof. exact (eof_stops h). Qed.
Print Assumptions C17b_eof_stops.

(* ---------- the hypotheses are inhabited: inputs with decoy terminators ---------- *)

(* a tokenizer state at offset p of s, about to run state f *)
Definition at_ (s : bytes) (p : Z) (f : h5fn) : h5 := mkH5 s p false f 0 0 0.
Definition nul1 : bytes := [x00].

(* tokens are (type, offset, length); 8 = TAG_COMMENT, 0 = DATA_TEXT, 9 = DOCTYPE, 7 = ATTR_VALUE *)

(* <%a%%>b : the lone '%' is a decoy; the token is "a%" *)
Example ex_pct :
  let h := at_ (bs "<%a%%>b") 2 SBogusComment2 in
  first_match pat_pct_gt (body h) = Some 2 /\
  h5_call 1 SBogusComment2 h = Ok (true, mkH5 (hs h) 6 false SData 2 2 8) /\
  h5_tokens (bs "<%a%%>b") 0 = Ok [(8, 2, 2); (0, 6, 1)].
Proof. vm_compute. repeat split. Qed.

(* <%a% : unterminated *)
Example ex_pct_open :
  let h := at_ (bs "<%a%") 2 SBogusComment2 in
  first_match pat_pct_gt (body h) = None /\
  h5_call 1 SBogusComment2 h = Ok (true, mkH5 (hs h) 4 false SEOF 2 2 8) /\
  h5_tokens (bs "<%a%") 0 = Ok [(8, 2, 2)].
Proof. vm_compute. repeat split. Qed.

(* <![CDATA[]]]>x : "]]]>" - the first ']' starts no terminator; the token is "]" *)
Example ex_cdata :
  let h := at_ (bs "<![CDATA[]]]>x") 9 SCData in
  first_match pat_cdata_end (body h) = Some 1 /\
  h5_call 1 SCData h = Ok (true, mkH5 (hs h) 13 false SData 9 1 0) /\
  md_classify (skipn 2 (bs "<![CDATA[]]]>x")) = MdCData /\
  h5_tokens (bs "<![CDATA[]]]>x") 0 = Ok [(0, 9, 1); (0, 13, 1)].
Proof. vm_compute. repeat split. Qed.

(* <![CDATA[a]] : unterminated, the position is left where it was *)
Example ex_cdata_open :
  let h := at_ (bs "<![CDATA[a]]") 9 SCData in
  first_match pat_cdata_end (body h) = None /\
  h5_call 1 SCData h = Ok (true, mkH5 (hs h) 9 false SEOF 9 3 0).
Proof. vm_compute. repeat split. Qed.

(* <!--a-\000->b-->c : NULs are tolerated between the dashes: the comment is
   "a", closed by the 4-byte terminator "-\000->"; "b-->c" is data *)
Example ex_comment_nul :
  let s := (bs "<!--a-" ++ nul1 ++ bs "->b-->c")%list in
  let h := at_ s 4 SComment in
  comment_end (body h) = Some (1, 4) /\
  h5_call 1 SComment h = Ok (true, mkH5 s 9 false SData 4 1 8) /\
  h5_tokens s 0 = Ok [(8, 4, 1); (0, 9, 5)].
Proof. vm_compute. repeat split. Qed.

(* <!--a--!>b : the terminator is "-!>" at the second dash; the comment is "a-" *)
Example ex_comment_bang :
  let h := at_ (bs "<!--a--!>b") 4 SComment in
  comment_end (body h) = Some (2, 3) /\
  h5_call 1 SComment h = Ok (true, mkH5 (hs h) 9 false SData 4 2 8) /\
  h5_tokens (bs "<!--a--!>b") 0 = Ok [(8, 4, 2); (0, 9, 1)].
Proof. vm_compute. repeat split. Qed.

(* <!--a- ->b--->c : "- -" and "->" are decoys; "--->" ends at its second dash *)
Example ex_comment_decoys :
  let h := at_ (bs "<!--a- ->b--->c") 4 SComment in
  comment_end (body h) = Some (7, 3) /\
  h5_call 1 SComment h = Ok (true, mkH5 (hs h) 14 false SData 4 7 8).
Proof. vm_compute. repeat split. Qed.

(* the three give-ups: dash too close to the end, NUL run to the end, input
   ending right after the marker byte *)
Example ex_comment_open :
  comment_end (bs "a--") = None /\
  comment_end (bs "a-" ++ nul1 ++ nul1)%list = None /\
  comment_end (bs "a--!") = None /\
  h5_tokens (bs "<!--a--") 0 = Ok [(8, 4, 3)] /\
  h5_tokens (bs "<!--a-" ++ nul1 ++ nul1)%list 0 = Ok [(8, 4, 4)] /\
  h5_tokens (bs "<!--a--!") 0 = Ok [(8, 4, 4)].
Proof. vm_compute. repeat split. Qed.

(* <!DocType a>b> : doctype in mixed case, ends at the first '>' *)
Example ex_doctype :
  let h := at_ (bs "<!DocType a>b>") 2 SDoctype in
  md_classify (body h) = MdDoctype /\
  first_byte x3e (body h) = Some 9 /\
  h5_call 1 SDoctype h = Ok (true, mkH5 (hs h) 12 false SData 2 9 9) /\
  h5_tokens (bs "<!DocType a>b>") 0 = Ok [(9, 2, 9); (0, 12, 2)].
Proof. vm_compute. repeat split. Qed.

(* <!x a>b>  and  <?x a>b> *)
Example ex_bogus :
  let h := at_ (bs "<!x a>b>") 2 SBogusComment in
  md_classify (body h) = MdBogus /\
  first_byte x3e (body h) = Some 3 /\
  h5_call 1 SBogusComment h = Ok (true, mkH5 (hs h) 6 false SData 2 3 8) /\
  h5_tokens (bs "<!x a>b>") 0 = Ok [(8, 2, 3); (0, 6, 2)] /\
  h5_tokens (bs "<?x a>b>") 0 = Ok [(8, 2, 3); (0, 6, 2)].
Proof. vm_compute. repeat split. Qed.

(* <a b='cXd'e> with X a double quote: the double quote inside a single-quoted value is a decoy *)
Example ex_quote_in_tag :
  let h := at_ (bs "<a b='c""d'e>") 5 SAttributeValueSingleQuote in
  value_start h = 6 /\
  first_byte x27 (skipn 6 (hs h)) = Some 3 /\
  h5_call 1 SAttributeValueSingleQuote h = Ok (true, mkH5 (hs h) 10 false SAfterAttributeValueQuoted 6 3 7) /\
  h5_tokens (bs "<a b='c""d'e>") 0 = Ok [(1, 1, 1); (6, 3, 1); (7, 6, 3); (6, 10, 1); (2, 11, 1)].
Proof. vm_compute. repeat split. Qed.

(* c'dXe (X a double quote) in a double-quoted context (flag 3): the single
   quote is a decoy, the value starts at offset 0 *)
Example ex_quote_context :
  let h := h5_init (bs "c'd""e") 3 in
  value_start h = 0 /\
  first_byte x22 (hs h) = Some 3 /\
  h5_call 1 SAttributeValueDoubleQuote h = Ok (true, mkH5 (hs h) 4 false SAfterAttributeValueQuoted 0 3 7) /\
  h5_tokens (bs "c'd""e") 3 = Ok [(7, 0, 3); (6, 4, 1)].
Proof. vm_compute. repeat split. Qed.
