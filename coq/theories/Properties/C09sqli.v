(* C09 (SQL side, beyond the tokenizer) — linear running time of IsSQLi.

   Property: "The running time of IsSQLi and IsXSS grows at most linearly with
   the length of the input."  C09lex.v covers one scan of the input by the SQL
   tokenizer.  This file covers the rest of IsSQLi (everything in SqliFold.v):
   the folding pass (merge, the two fetch loops, the two- and three-token rewrite
   rules, the main loop of fold, the initial skip loop), sqliFingerprint,
   blacklist, notWhitelist, the cascade of at most five passes in check, and
   IsSQLi itself.

   What is proved.  Running time is not a notion of the Coq model, so the part
   that is logic is decided with a cost semantics, as for the tokenizer:

     - Cost/CostSqliFold.v contains, for every function f of SqliFold.v that
       does work, a twin c_f that mirrors f line by line (same control flow,
       same panic sites, calling the instrumented tokenizer c_tokenize of
       Cost/CostSqliLex.v) and returns, together with f's result, the number of
       elementary steps it took;
     - the erasure theorems (the C09_erase theorems) say that forgetting the step count
       gives back exactly the model's result (value or failure), so a bound on
       the count is a bound on the work of the model itself;
     - C09_is_sqli_linear: the count of a whole IsSQLi call is at most
            406637 * len + 432969;
       C09_is_sqli_total_linear: IsSQLi returns (C01), the instrumented IsSQLi
       returns the same value, and its count obeys that bound.

   The cost unit (Cost/CostBase.v, Cost/CostSqliFold.v).  One step is charged
     - per byte examined by a scan: the two strings.IndexByte(input, quote) of
       check, strings.Contains(input, "sp_password") of notWhitelist (the bytes
       up to the first match, or all of them, plus the needle plus one),
       strings.IndexByte on a token value (COLLATE rule), and everything the
       tokenizer charges (C09lex.v);
     - len key + 1 per keyword look-up (merge looks up a.val + " " + b.val) and
       per upper-casing comparison of a token value with a literal (the eleven
       comparisons of the function-like-name test: 11 * (len + 1)); len fp + 2
       for blacklist (upper-casing and looking up "0" + fingerprint); len fp + 1
       per comparison of the fingerprint with a group of literals;
     - per read, write or truncation of the 8-slot token window, per checked
       index / slice expression (val[:len], val[0], fingerprint[i], input[i]),
       one per assign;
     - per iteration of every loop (the two fetch loops, the main loop of fold,
       the initial skip loop, the fingerprint loop) and per entry of the two-
       and three-token rule cascades.

   How the bound is obtained.
     - the tokenizer calls of one pass (skip loop and fetch loops) continue from
       the position the previous call reached, so together they are one scan of
       the input.  They are amortised with the potential
            TP(s) = 134 * (len - pos) + 36 * phi_lex(input[pos:])
       (phi_lex: the look-ahead potential of C09lex.v, at most 2 * len): a call
       costs at most the drop of TP plus 10, with 16 per consumed byte to spare
       (c_tokenize_TP), which pays the loop overhead of every call that returns
       a token (it consumes at least one byte).  TP of a fresh state is at most
       206 * len (TP_init).
     - one iteration of the main loop (C09_fold_iter_bound): at most 676 steps
       plus the drop of TP.  Window operations, class tests and look-ups on
       token values of at most 31 bytes are constant: merge <= 36, the
       function-like-name test <= 353, IN / LIKE tests <= 65 each, the
       three-token rules <= 76, a fetch <= 12 beyond its tokenizer calls.
     - the number of iterations: every iteration that continues lowers the
       folder potential FoldBase.phi by at least one (FoldLoop.fold_iter_spec,
       proved for C01), and phi of the state the loop starts in is at most
       120 * len + 127.  Hence one pass (C09_fold_linear) costs at most
            206 * len + 676 * (120 * len + 127) + 694 = 81326 * len + 86546.
       The constant is large because the iteration bound of C01 is generous
       (120 per input byte: 100 per token that can enter the window plus the
       re-classification ranks) and every iteration is charged the worst rule;
       the measured costs below are between 2 and 35 steps per byte.
     - sqliFingerprint: one pass + 11 (at most 6 tokens).  notWhitelist: one
       Contains scan (len + 13) + 15.  check: at most five passes (none/ANSI,
       none/MySQL, single/ANSI, single/MySQL, double/MySQL), two IndexByte scans
       of the input, two mode tests:
            5 * (81326 * len + 86557 + len + 36) + 2 * (len + 1) + 2.

   What is not covered.
     - the relation between one cost unit and machine time (that each counted
       primitive takes time bounded by a constant times its charge in the Go
       runtime: map look-up with a key of at most 32 bytes, strings.ToUpper on
       at most 32 bytes, strings.Contains, strings.IndexByte);
     - the folder is modelled with a window that holds exactly the live tokens
       (see SqliFold.v); copying a token (32-byte value array) is charged one
       step, as in the tokenizer;
     - fold_loop groups the iterations of the main loop in chunks of 256 (a
       device of the model to keep the fuel small); it is not charged;
     - the bound is on the instrumented twin; its tie to the Go source is the
       same model-vs-source validation as for every other property;
     - the XSS side is in C09xss.v. *)
From Coq Require Import List ZArith String Bool Lia.
From Coq.Strings Require Import Byte.
From LI Require Import Prelude Base SqliLex SqliFold Cost.CostBase Cost.CostSqliLex Cost.CostSqliLexProofs
  Cost.CostSqliFold Cost.CostSqliFoldProofs
  Proofs.LexBase Proofs.LexSpec Proofs.FoldBase.
From LIGen Require Import Tables Dispatch Consts.
Import ListNotations.
Local Open Scope Z_scope.

(* ---------- erasure ---------- *)

Theorem C09_erase_is_sqli inp : erase (c_is_sqli inp) = is_sqli inp.
Proof. exact (erase_c_is_sqli inp). Qed.

Theorem C09_erase_check s : erase (c_check s) = check s.
Proof. exact (erase_c_check s). Qed.

Theorem C09_erase_check_fingerprint s fp w : erase (c_check_fingerprint s fp w) = check_fingerprint s fp w.
Proof. exact (erase_c_check_fingerprint s fp w). Qed.

Theorem C09_erase_not_whitelist s fp w : erase (c_not_whitelist s fp w) = not_whitelist s fp w.
Proof. exact (erase_c_not_whitelist s fp w). Qed.

Theorem C09_erase_blacklist fp : erase (c_blacklist fp) = Ok (blacklist fp).
Proof. exact (erase_c_blacklist fp). Qed.

Theorem C09_erase_sqli_fingerprint s fl : erase (c_sqli_fingerprint s fl) = sqli_fingerprint s fl.
Proof. exact (erase_c_sqli_fingerprint s fl). Qed.

Theorem C09_erase_fold s : erase (c_fold s) = fold s.
Proof. exact (erase_c_fold s). Qed.

Theorem C09_erase_fold_iter f : erase (c_fold_iter f) = fold_iter f.
Proof. exact (erase_c_fold_iter f). Qed.

Theorem C09_erase_rules2 f : erase (c_rules2 (c_fetch_n 3) f) = rules2 (fetch_n 3) f.
Proof. exact (erase_c_rules2 (c_fetch_n 3) (fetch_n 3) f (erase_c_fetch_n 3)). Qed.

Theorem C09_erase_rules3 f : erase (c_rules3 f) = rules3 f.
Proof. exact (erase_c_rules3 f). Qed.

Theorem C09_erase_fetch fuel want f : erase (c_fetch fuel want f) = fetch fuel want f.
Proof. exact (erase_c_fetch fuel want f). Qed.

Theorem C09_erase_merge a b : erase (c_merge a b) = merge a b.
Proof. exact (erase_c_merge a b). Qed.

(* ---------- one iteration of the main loop of fold ---------- *)

(* under the window invariant, an iteration costs at most 676 steps on top of
   the tokenizer calls of its fetches; those are paid by the drop of TP *)
Theorem C09_fold_iter_bound inp fl f r c :
  finv inp fl f -> c_fold_iter f = Ok (r, c) ->
  c + TP (iter_s r) <= TP (f_s f) + 676.
Proof. exact (c_fold_iter_bound inp fl f r c). Qed.

(* the tokenizer's share of the potential of a fresh state *)
Theorem C09_TP_init inp fl : 0 <= TP (sqli_init inp fl) <= 206 * len inp.
Proof. exact (TP_init inp fl). Qed.

(* k iterations: cost plus potential does not grow *)
Theorem C09_fold_steps_bound inp fl k f r c :
  finv inp fl f -> c_fold_steps k f = Ok (r, c) ->
  match r with
  | inl f' => c + TP (f_s f') + 676 * FoldBase.phi f' <= TP (f_s f) + 676 * FoldBase.phi f
  | inr _ => c <= TP (f_s f) + 676 * FoldBase.phi f + 677
  end.
Proof. exact (c_fold_steps_bound inp fl k f r c). Qed.

(* ---------- one folding pass ---------- *)

Theorem C09_fold_linear inp fl : cost_of (c_fold (sqli_init inp fl)) <= 81326 * len inp + 86546.
Proof. exact (c_fold_linear_cost inp fl). Qed.

Theorem C09_fold_total_linear inp fl :
  exists w s c, c_fold (sqli_init inp fl) = Ok ((w, s), c) /\ fold (sqli_init inp fl) = Ok (w, s) /\
                c <= 81326 * len inp + 86546.
Proof. exact (c_fold_total_linear inp fl). Qed.

(* ---------- IsSQLi ---------- *)

Theorem C09_is_sqli_linear inp : cost_of (c_is_sqli inp) <= 406637 * len inp + 432969.
Proof. exact (c_is_sqli_linear inp). Qed.

(* IsSQLi returns, the instrumented IsSQLi returns the same verdict and
   fingerprint, and the steps it counts are at most 406637 * len + 432969 *)
Theorem C09_is_sqli_total_linear inp :
  exists b fp c, c_is_sqli inp = Ok ((b, fp), c) /\ is_sqli inp = Ok (b, fp) /\
                 c <= 406637 * len inp + 432969.
Proof. exact (c_is_sqli_total_linear inp). Qed.

Print Assumptions C09_erase_is_sqli.
Print Assumptions C09_fold_iter_bound.
Print Assumptions C09_fold_steps_bound.
Print Assumptions C09_fold_total_linear.
Print Assumptions C09_is_sqli_linear.
Print Assumptions C09_is_sqli_total_linear.

(* ---------- actual costs on inputs of increasing length ---------- *)

Fixpoint rep (n : nat) (l : bytes) : bytes :=
  match n with O => [] | S n => l ++ rep n l end.

Definition sqli_cost (l : bytes) : Z := cost_of (c_is_sqli l).

(* in every family the increment from n = 100 to n = 200 is twice the increment
   from n = 50 to n = 100 *)

(* n single quotes *)
Example quotes_50_100_200 :
  map (fun n => sqli_cost (rep n (bs "'"))) [50; 100; 200]%nat = [490; 940; 1840].
Proof. vm_compute. reflexivity. Qed.

(* numbers separated by blanks: five numbers fill the window and end each pass;
   what grows is the two scans for a quote *)
Example numbers_50_100_200 :
  map (fun n => sqli_cost (rep n (bs "1 "))) [50; 100; 200]%nat = [373; 573; 973].
Proof. vm_compute. reflexivity. Qed.

(* number , number is folded away: the folder runs through the whole input *)
Example commas_50_100_200 :
  map (fun n => sqli_cost (rep n (bs "1,"))) [50; 100; 200]%nat = [1759; 3509; 7009].
Proof. vm_compute. reflexivity. Qed.

(* number operator number is folded away *)
Example sums_50_100_200 :
  map (fun n => sqli_cost (rep n (bs "1+"))) [50; 100; 200]%nat = [1709; 3409; 6809].
Proof. vm_compute. reflexivity. Qed.

Example unions_50_100_200 :
  map (fun n => sqli_cost (rep n (bs "1 union "))) [50; 100; 200]%nat = [1030; 1830; 3430].
Proof. vm_compute. reflexivity. Qed.

(* left parentheses: all consumed by the initial skip loop *)
Example parens_50_100_200 :
  map (fun n => sqli_cost (rep n (bs "("))) [50; 100; 200]%nat = [458; 908; 1808].
Proof. vm_compute. reflexivity. Qed.

Example dotted_50_100_200 :
  map (fun n => sqli_cost (rep n (bs "a."))) [50; 100; 200]%nat = [641; 941; 1541].
Proof. vm_compute. reflexivity. Qed.

(* backslash-escaped quotes: three passes (no quote, single quote, MySQL) *)
Example escaped_50_100_200 :
  map (fun n => sqli_cost (rep n (bs "\'"))) [50; 100; 200]%nat = [1050; 2050; 4050].
Proof. vm_compute. reflexivity. Qed.

(* end-of-line comments: remembered, never stored in the window *)
Example comments_50_100_200 :
  map (fun n => sqli_cost (rep n (bs "--" ++ [x0a]))) [50; 100; 200]%nat = [908; 1808; 3608].
Proof. vm_compute. reflexivity. Qed.

(* C-style comments *)
Example c_comments_50_100_200 :
  map (fun n => sqli_cost (rep n (bs "/**/"))) [50; 100; 200]%nat = [1258; 2508; 5008].
Proof. vm_compute. reflexivity. Qed.

(* both kinds of quote: all five passes *)
Example both_quotes_50_100_200 :
  map (fun n => sqli_cost (rep n (bs """ ' "))) [50; 100; 200]%nat = [2747; 5447; 10847].
Proof. vm_compute. reflexivity. Qed.

(* one folding pass alone, on an input the folder consumes completely *)
Example fold_commas_50_100_200 :
  map (fun n => cost_of (c_fold (sqli_init (rep n (bs "1,")) 0))) [50; 100; 200]%nat = [1549; 3099; 6199].
Proof. vm_compute. reflexivity. Qed.
