(* C03 (mixed separators): whitespace bytes and the inline comment `/**/` mixed
   inside one slot -- FINITE evidence only.

   In plain words.  The property's separator alphabet is "any SQL whitespace
   byte or inline comment".  Properties/C03.v covers the same single separator
   in every slot (one whitespace byte, or `/**/`); Properties/C03ws.v covers
   any non-empty run of whitespace bytes, independently per slot.  Not covered
   by either: a slot that holds a MIXTURE such as  blank comment blank,
   comment comment,  tab comment newline.

   What is proved here: for six fixed mixtures (WsMixSweep.mixed_separators),
   put into ALL slots of a member alike, every member of the frozen grammar is
   reported.  This is a computation over the whole grammar (vm_compute, a few
   minutes; re-run whenever the grammar is regenerated), of the same kind as
   C03_core, not a lifting argument.

   What is NOT proved: the general statement -- each slot holds, independently,
   ANY non-empty sequence of pieces, each a whitespace byte or `/**/`.  Why it
   does not follow from the existing lemmas, and what a proof needs:
     - `/**/` is not skipped by the tokenizer: parseSlash returns a comment
       TOKEN, which the folder drops when it fetches tokens (fetch keeps it as
       lastComment and reads on; the initial skip loop passes over it).  The
       scan of a mixed filling therefore makes MORE calls of the tokenizer
       than the scan of the reference string.  The fold simulation of
       Proofs/WsFold.v is a lock-step simulation (one call against one call:
       its assumption H_tok); a version that lets the variant take extra
       comment-reading steps in `fetch` and `skip_loop` (with the fuel
       accounted for: every such step consumes four input bytes) has to be
       written, and the lemmas of WsFold.v re-closed over it (they live in a
       Section over H_tok and cannot be re-used as they are);
     - the scanner statistic n_tokens counts the dropped comments, so it is
       LARGER for the variant; WsFold assumes equal statistics, and
       WsCheck.nw_transfer assumes equal n_tokens.  The three readers in
       notWhitelist (`n_tokens = 2` for "1U", `n_tokens > 2` for "1c",
       `n_tokens = 3` for "sos"/"s&s") all move towards "SQLi" when n_tokens
       grows beyond 3, so a computed condition  3 < n_tokens  of the reference
       reading (or: no comment in any slot) would do, but the transfer lemma
       and the cascade argument of WsCheck.v have to be redone for it;
     - a comment that is the LAST token of the input is not dropped: fold
       appends lastComment, the fingerprint gets one more `c`.  Slots followed
       by nothing (trailing empty segment) must be excluded or treated
       against the `/**/` reference;
     - `/` directly behind a token is not whitespace for the lexers:
       WsLocal.v (locality: no lexer looks beyond the first whitespace byte)
       does not apply when the first piece of a slot is the comment; operators
       look at the following byte.  Fillings whose first piece is a whitespace
       byte avoid this; the others need a per-member computed comparison with
       the `/**/` instance;
     - the slot-by-slot normalisation of WsTokens.v / WsCheck.v (about 1300
       lines) is stated for runs of whitespace bytes (wsfill, runs_okw) and
       has to be restated and re-proved for sequences of pieces.
   Estimated at three new proof files of the size of WsFold / WsTokens /
   WsCheck; not feasible in the two hours available.  No counterexample is
   known: besides the sweep below, the six mixtures were the only shapes tried,
   and none of the 6 x |all_cases| instances is missed. *)
From Coq Require Import List ZArith String Bool.
From Coq.Strings Require Import Byte.
From LI Require Import Prelude Base SqliLex SqliFold GrammarSqli Proofs.WsCase Proofs.WsMixSweep.
From LIGen Require Import C03CoreAll.
Import ListNotations.

Theorem C03_core_separator_mix_finite :
  forall segs m, In segs all_cases -> In m mixed_separators ->
  exists fp, is_sqli (inst m segs) = Ok (true, fp).
Proof. exact core_mix_finite. Qed.
Print Assumptions C03_core_separator_mix_finite.

(* the six mixtures, spelled out *)
Example C03wsm_mixtures :
  mixed_separators =
  [ bs " /**/ "; bs "/**//**/"; [x09] ++ bs "/**/" ++ [x0a]; bs "/**/ "; bs " /**/";
    [xa0] ++ bs "/**/" ++ [x00] ++ bs "/**/" ++ [x0d] ].
Proof. reflexivity. Qed.

(* 1' /**/ OR /**/ 1=1-- : evaluated, and derived from the theorem *)
Example C03wsm_example_eval : is_sqli (bs "1' /**/ OR /**/ 1=1--") = Ok (true, bs "s&1c").
Proof. vm_compute. reflexivity. Qed.
Example C03wsm_example : exists fp, is_sqli (bs "1' /**/ OR /**/ 1=1--") = Ok (true, fp).
Proof.
  apply (C03_core_separator_mix_finite [bs "1'"; bs "OR"; bs "1=1--"] (bs " /**/ ")).
  - apply in_cases_sound. vm_compute. reflexivity.
  - left. reflexivity.
Qed.

(* NOT derived from any theorem, evaluated only: different mixtures in different slots *)
Example C03wsm_independent_eval_only :
  is_sqli (bs "1" ++ [x09] ++ bs "/**/UNION/**//**/" ++ [x0a] ++ bs "SELECT /**/" ++ [xa0] ++ bs "1") = Ok (true, bs "1UE1").
Proof. vm_compute. reflexivity. Qed.

(* the trailing-comment effect named above: a comment behind the last token stays in the fingerprint *)
Example C03wsm_trailing_comment :
  is_sqli (bs "1 OR 1=1 ") = Ok (true, bs "1&1") /\ is_sqli (bs "1 OR 1=1 /**/") = Ok (true, bs "1&1c").
Proof. vm_compute. split; reflexivity. Qed.

(* the statistic effect named above: "1 UNION" alone is not reported (two tokens), with a comment in
   the slot it is (three tokens scanned) -- the verdict is NOT invariant under inserting a comment *)
Example C03wsm_ntokens_effect :
  is_sqli (bs "1 UNION") = Ok (false, []) /\ is_sqli (bs "1 /**/ UNION") = Ok (true, bs "1U").
Proof. vm_compute. split; reflexivity. Qed.
