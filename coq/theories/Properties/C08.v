(* C08 — the verdict of IsSQLi and the fingerprint it returns agree.

   In plain words.  Whatever the input, if IsSQLi returns (b, fp) then

     - b = false comes with the empty fingerprint, and b = true with a
       non-empty one (C08_nonempty_iff): the fingerprint is non-empty exactly
       when the verdict is true;
     - when b = true, fp
         * has 1 to 5 characters,
         * every character is one of the documented token-class characters
           (`is_class`: the alphabet  k U B E t f n 1 v s o & c A ( ) { } . , : ; T ? X F \ ),
         * carries the comment class 'c' in last position only,
         * is a member of the shipped fingerprint blacklist: the keyword table
           maps '0' followed by fp in upper case to the fingerprint class 'F'
           (the look-up is case-insensitive, so this is membership of fp up to
           letter case),
         * is the fingerprint of the input under at least one of the five
           parsing contexts, read independently on a fresh state, and the
           verdict of that reading is true
           (`fingerprint_ctx inp flags = Ok (fp, blacklisted, true, statistics)`).

   Why.  By C12a a true verdict is the verdict of one reading and the returned
   fingerprint is the fingerprint of that reading; a false verdict blanks the
   fingerprint.  A reading's verdict is true only if `blacklist fp` is true.
   The fingerprint of a reading is either "X" or the class characters of the
   folded token window, each a documented class (C01's invariant `fp_ok`).
   `blacklist fp` means the table has the key '0' ++ upper(fp) with class 'F';
   a sweep over the whole shipped table (vm_compute) shows every 'F' key is
   one byte followed by 1..5 bytes with 'C' nowhere but last; this transfers
   to fp position by position (upper('c') = 'C').

   Remark on the length bound: fold can hand on 6 tokens only when the window
   overflowed, and then one of them has the evil class and the fingerprint
   collapses to "X"; the bound 5 proved here does not rely on that argument,
   it comes from the table.  No clause of the property was found false for
   the model.

   Proofs: Proofs/CascadeProofs.v. *)
From Coq Require Import List ZArith String Bool.
From Coq.Strings Require Import Byte.
From LI Require Import Prelude Base SqliLex SqliFold Proofs.LexBase Spec.CascadeSpec Proofs.CascadeProofs.
From LIGen Require Import Consts.
Import ListNotations.
Local Open Scope Z_scope.
Local Open Scope string_scope.

Theorem C08_consistent : forall inp b fp, is_sqli inp = Ok (b, fp) ->
  (b = false -> fp = []) /\
  (b = true ->
     1 <= len fp <= 5 /\
     Forall (fun c => is_class c = true) fp /\
     (forall i, nth_error fp i = Some b_sqli_token_type_comment -> S i = List.length fp) /\
     search_keyword (x30 :: map upper_ascii fp) = b_sqli_token_type_fingerprint /\
     exists fl,
       In fl [Z.lor c_sqli_flag_quote_none   c_sqli_flag_sqlansi;
              Z.lor c_sqli_flag_quote_none   c_sqli_flag_sqlmysql;
              Z.lor c_sqli_flag_quote_single c_sqli_flag_sqlansi;
              Z.lor c_sqli_flag_quote_single c_sqli_flag_sqlmysql;
              Z.lor c_sqli_flag_quote_double c_sqli_flag_sqlmysql] /\
       exists bl st, fingerprint_ctx inp fl = Ok (fp, bl, true, st)).
Proof. exact is_sqli_consistent. Qed.
Print Assumptions C08_consistent.

Theorem C08_nonempty_iff : forall inp b fp, is_sqli inp = Ok (b, fp) -> (fp <> [] <-> b = true).
Proof. exact is_sqli_nonempty_iff. Qed.
Print Assumptions C08_nonempty_iff.

(* the blacklist clause in the model's own terms *)
Theorem C08_blacklisted : forall inp fp, is_sqli inp = Ok (true, fp) -> blacklist fp = true.
Proof.
  intros inp fp E. destruct (is_sqli_consistent inp true fp E) as [_ T].
  destruct (T eq_refl) as (_ & _ & _ & _ & fl & _ & bl & x & R).
  exact (proj1 (reading_true _ _ _ _ _ R)).
Qed.
Print Assumptions C08_blacklisted.

(* ---------- examples ---------- *)

(* a true verdict and its witness context: single-quote context, MySQL rules *)
Example C08_ex_true :
  is_sqli (bs "1' or 1=1 #") = Ok (true, bs "s&1c") /\
  (exists bl st, fingerprint_ctx (bs "1' or 1=1 #") (Z.lor c_sqli_flag_quote_single c_sqli_flag_sqlmysql)
                 = Ok (bs "s&1c", bl, true, st)) /\
  search_keyword (bs "0S&1C") = b_sqli_token_type_fingerprint /\
  search_keyword (bs "0s&1c") = b_sqli_token_type_fingerprint.
Proof. split; [|split; [do 2 eexists|split]]; vm_compute; reflexivity. Qed.

(* a five-character fingerprint, the maximum, comment class in last position *)
Example C08_ex_five :
  is_sqli (bs "x"" union select 1 -- ") = Ok (true, bs "sUE1c").
Proof. vm_compute. reflexivity. Qed.

Example C08_ex_false : is_sqli (bs "hello") = Ok (false, []).
Proof. vm_compute. reflexivity. Qed.

(* a blacklisted fingerprint that the whitelist exceptions clear: the reading
   is blacklisted but its verdict is false, and IsSQLi returns the empty string *)
Example C08_ex_whitelisted :
  is_sqli (bs "1 union") = Ok (false, []) /\
  exists st, fingerprint_ctx (bs "1 union") (Z.lor c_sqli_flag_quote_none c_sqli_flag_sqlansi)
             = Ok (bs "1U", true, false, st).
Proof. split; [|eexists]; vm_compute; reflexivity. Qed.
