(* C06 — the SQLi pipeline conforms to an independently written executable specification.

   Ref is written in a different style from the model M (which transliterates the Go code:
   scanner record with absolute positions, checked index primitives in an error monad,
   fuel, a first-match-wins if-cascade over a mutable window):
     - Spec/RefSqlLex.v : list-directed lexers over the remaining input, lexemes described
       with span / find_close / first_match, no positions into a shared buffer, no error
       monad, no fuel inside the lexers; byte dispatch and keyword table are data;
     - Spec/RefSqlFold.v : the folding rules as DATA (22 two-token rows, 15 three-token rows,
       the five-token patterns; each row = class / value patterns + slot actions + new left)
       interpreted by a small generic engine over an abstract token source; fingerprint,
       blacklist, the whitelist as decision tables; the cascade over fresh readings.
   Proved, for every input and every flag word (all parsing modes):
     tokens        = Ref tokens (every field of every record, scan offsets, statistics)
     folded tokens = Ref folded tokens (every field, final scanner state)
     per-context (fingerprint, blacklisted, verdict, statistics) = Ref
     is_sqli       = Ref verdict and fingerprint.
   The Go code is tied to M by the full-width correspondence check (token records, folded
   windows, per-context results, the public pair, six modes), so Go = M is tested and
   M = Ref is proved.  The detailed theorems are in C06lex.v and C06fold.v. *)
From Coq Require Import List ZArith String Bool.
From Coq.Strings Require Import Byte.
From LI Require Import Prelude Base SqliLex SqliFold Spec.RefSqlLex Spec.RefSqlFold
  Properties.C06lex Properties.C06fold.
Import ListNotations.

Theorem C06_conforms :
  forall inp fl,
    (exists st, tokens inp fl = Ok (ref_tokens fl inp, st)) /\
    fold_tokens inp fl = Ok (ref_fold_tokens inp fl) /\
    fingerprint_ctx inp fl = Ok (ref_ctx inp fl) /\
    is_sqli inp = Ok (ref_is_sqli inp).
Proof.
  intros inp fl. repeat split.
  - apply C06_tokens_equal_ref.
  - apply C06_fold.
  - apply C06_fingerprint.
  - apply C06_verdict.
Qed.
Print Assumptions C06_conforms.
