(* C18 — SQL string literals end at their first real terminator.

   The oracle (Spec/StringSpec.v; structurally recursive over the bytes, no
   indices, no fuel, no errors):

     find_close d odd l   offset in l of the first delimiter byte d that is
                          neither preceded by an odd number of backslashes
                          (counted inside the literal only; `odd` is the parity
                          of the run just before l) nor immediately followed by
                          another d (a doubled delimiter is skipped as a pair);
                          None when there is no such byte.
     first_match pat l    first offset at which the byte sequence pat occurs in l.
     q_close ch           ')' for '(' , ']' for '[' , '}' for '{' , '>' for '<',
                          ch itself for every other byte.
     lit_result cnt inp cpos o c w close
                          the (token, resume offset) of a literal whose content
                          starts at absolute offset cpos:
                            close = Some i : token pos = cpos, len = min i 31,
                              val = the first min(i,31) bytes of inp[cpos:],
                              class 's', open mark o, close mark c; scanning
                              resumes at cpos + i + w (right after the w-byte
                              terminator);
                            close = None : (unterminated) len = min (|inp|-cpos) 31,
                              val = the clipped rest of the input, close mark NUL,
                              scanning resumes at |inp|.

   What the theorems say (all are equations `model call = Ok (oracle value)`, so
   they also say: no Panic, no OutOfFuel):

     C18_loop              parseStringCore's loop, started at any k inside the
                           literal with enough fuel, returns k + find_close of
                           the bytes from k on, the parity being that of the
                           backslash run of input[start:k]   (d <> backslash).
     C18_loop_start        the instance k = start, parity even.
     C18_string_core       parseStringCore(s, len s, pos, offset, d) =
                           lit_result at cpos = pos+offset, terminator width 1,
                           open mark d if offset > 0 else NUL, close mark d,
                           close = find_close d false (input from cpos on).
     C18_find_close_delim,
     C18_find_close_range  the offset find_close returns is inside l and holds a d.
     C18_index             strings.Index(l, pat) = first_match pat l (or -1).
     C18_first_match_Some,
     C18_first_match_None  first_match pat l = Some i  iff  pat occurs at i
                           (l = pre ++ pat ++ post, |pre| = i) and at no j < i;
                           = None iff pat occurs nowhere.
     C18_parse_string      '..' and ".." (real quote at pos): offset 1, d = input[pos].
     C18_tokenize_virtual_quote
                           first tokenize() call with a quote flag (pos = 0):
                           offset 0, d = flag2delimiter flags, open mark NUL.
     C18_parse_tick        `..`  (class becomes 'f' or 'n' by keyword look-up).
     C18_parse_var_quoted  @'..'  @".."  (class 'v', count 1).
     C18_parse_estring     e'..'  E'..'  (offset 2).
     C18_parse_nqstring_quote   n'..'  N'..'  (same as e'..').
     C18_parse_ustring     u&'..' U&'..' (content after the 3-byte opener, marks 'u').
     C18_qstring           q'X..Y' / Q'X..Y' with any delimiter byte X of code
                           >= 33, including every byte >= 0x80: terminator is
                           the 2-byte sequence [q_close X; '], marks 'q'.
     C18_nqstring_q        nq'X..Y'  NQ'X..Y'  (same, one byte later).
     C18_dollar_dollar     $$..$$ : terminator is the first "$$", marks '$'.
     C18_dollar_tag        $tag$..$tag$ where tag is the maximal run (length
                           n >= 1) of ASCII letters after the first '$' and is
                           followed by '$': terminator is the first occurrence
                           of the whole text $tag$, marks '$'.

   Covered literal forms: '..' ".." `..` @'..' @".." e'..' n'..' u&'..' q'..'
   nq'..' $$..$$ $tag$..$tag$ and the virtual opening quote of a quoted context.
   Not covered here: @@'..' and @`..` (same code path as @'..' with count 2 /
   parse_tick; not stated), x'..' and b'..' (hex / bit strings are number
   tokens, not string scans), the fall-backs to parse_word when an opener is
   not recognised (e' at the very end of the input, q' with a delimiter byte
   of code < 33, $ followed by a non-letter, $tag not followed by '$'). *)
From Coq Require Import List ZArith String Bool.
From Coq.Strings Require Import Byte.
From LI Require Import Prelude Base SqliLex Spec.StringSpec Proofs.StringProofs.
From LIGen Require Import Consts.
Import ListNotations.
Local Open Scope Z_scope.

(* ---------- the loop and parseStringCore ---------- *)

Theorem C18_loop fuel s start k d :
  d <> x5c -> 0 <= start <= k -> k <= len s -> len s - k < Z.of_nat fuel ->
  string_core_loop fuel s start k d
  = Ok (option_map (fun i => k + i)
         (find_close d
            (is_backslash_escaped (firstn (Z.to_nat (k - start)) (skipn (Z.to_nat start) s)))
            (skipn (Z.to_nat k) s))).
Proof. exact (string_core_loop_find_close fuel s start k d). Qed.
Print Assumptions C18_loop.

Theorem C18_loop_start fuel s start d :
  d <> x5c -> 0 <= start <= len s -> len s - start < Z.of_nat fuel ->
  string_core_loop fuel s start start d
  = Ok (option_map (fun i => start + i) (find_close d false (skipn (Z.to_nat start) s))).
Proof. exact (string_core_loop_find_close_start fuel s start d). Qed.
Print Assumptions C18_loop_start.

Theorem C18_string_core t s p offset d :
  d <> x5c -> 0 <= p -> 0 <= offset -> p + offset <= len s ->
  parse_string_core t s (len s) p offset d
  = Ok (lit_result (t_count t) s (p + offset) (if 0 <? offset then d else x00) d 1
          (find_close d false (skipn (Z.to_nat (p + offset)) s))).
Proof. exact (parse_string_core_full t s p offset d). Qed.
Print Assumptions C18_string_core.

Theorem C18_find_close_delim d l odd i :
  find_close d odd l = Some i -> nth_error l (Z.to_nat i) = Some d.
Proof. exact (find_close_delim d l odd i). Qed.
Print Assumptions C18_find_close_delim.

Theorem C18_find_close_range d l odd i : find_close d odd l = Some i -> 0 <= i < len l.
Proof. exact (find_close_range d l odd i). Qed.
Print Assumptions C18_find_close_range.

(* ---------- strings.Index ---------- *)

Theorem C18_index l pat :
  index l pat = match first_match pat l with Some i => i | None => -1 end.
Proof. exact (index_first_match l pat). Qed.
Print Assumptions C18_index.

Theorem C18_first_match_Some pat l i :
  first_match pat l = Some i <-> (occurs_at pat l i /\ forall j, j < i -> ~ occurs_at pat l j).
Proof. exact (first_match_Some pat l i). Qed.
Print Assumptions C18_first_match_Some.

Theorem C18_first_match_None pat l : first_match pat l = None <-> forall j, ~ occurs_at pat l j.
Proof. exact (first_match_None pat l). Qed.
Print Assumptions C18_first_match_None.

(* ---------- quote-delimited literals ---------- *)

Theorem C18_parse_string s t d :
  0 <= pos s -> nth_error (input s) (Z.to_nat (pos s)) = Some d -> d <> x5c ->
  parse_string s t
  = Ok (let '(tk, np) := lit_result (t_count t) (input s) (pos s + 1) d d 1
                           (find_close d false (skipn (Z.to_nat (pos s + 1)) (input s)))
        in (s, tk, np)).
Proof. exact (parse_string_full s t d). Qed.
Print Assumptions C18_parse_string.

Theorem C18_tokenize_virtual_quote s cur :
  input s <> [] -> pos s = 0 ->
  Z.land (flags s) (Z.lor c_sqli_flag_quote_single c_sqli_flag_quote_double) <> 0 ->
  tokenize s cur
  = Ok (let d := flag2delimiter (flags s) in
        let '(tk, np) := lit_result 0 (input s) 0 x00 d 1 (find_close d false (input s))
        in (true, tk, bump_tokens (set_pos s np))).
Proof. exact (tokenize_virtual_quote_full s cur). Qed.
Print Assumptions C18_tokenize_virtual_quote.

Theorem C18_parse_tick s t :
  0 <= pos s < len (input s) ->
  parse_tick s t
  = Ok (let '(tk, np) := lit_result (t_count t) (input s) (pos s + 1) x60 x60 1
                           (find_close x60 false (skipn (Z.to_nat (pos s + 1)) (input s)))
        in (s, set_cat tk (if beq (search_keyword (t_val tk)) b_sqli_token_type_function
                           then b_sqli_token_type_function else b_sqli_token_type_bare_word), np)).
Proof. exact (parse_tick_full s t). Qed.
Print Assumptions C18_parse_tick.

Theorem C18_parse_var_quoted s t d :
  0 <= pos s ->
  nth_error (input s) (Z.to_nat (pos s + 1)) = Some d -> d = x27 \/ d = x22 ->
  parse_var s t
  = Ok (let '(tk, np) := lit_result 1 (input s) (pos s + 2) d d 1
                           (find_close d false (skipn (Z.to_nat (pos s + 2)) (input s)))
        in (set_pos s (pos s + 1), set_cat tk b_sqli_token_type_variable, np)).
Proof. exact (parse_var_quoted_full s t d). Qed.
Print Assumptions C18_parse_var_quoted.

Theorem C18_parse_estring s t :
  0 <= pos s -> pos s + 2 < len (input s) ->
  nth_error (input s) (Z.to_nat (pos s + 1)) = Some x27 ->
  parse_estring s t
  = Ok (let '(tk, np) := lit_result (t_count t) (input s) (pos s + 2) x27 x27 1
                           (find_close x27 false (skipn (Z.to_nat (pos s + 2)) (input s)))
        in (s, tk, np)).
Proof. exact (parse_estring_full s t). Qed.
Print Assumptions C18_parse_estring.

Theorem C18_parse_nqstring_quote s t :
  0 <= pos s -> pos s + 2 < len (input s) ->
  nth_error (input s) (Z.to_nat (pos s + 1)) = Some x27 ->
  parse_nqstring s t
  = Ok (let '(tk, np) := lit_result (t_count t) (input s) (pos s + 2) x27 x27 1
                           (find_close x27 false (skipn (Z.to_nat (pos s + 2)) (input s)))
        in (s, tk, np)).
Proof. exact (parse_nqstring_quote_full s t). Qed.
Print Assumptions C18_parse_nqstring_quote.

Theorem C18_parse_ustring s t :
  0 <= pos s ->
  nth_error (input s) (Z.to_nat (pos s + 1)) = Some x26 ->
  nth_error (input s) (Z.to_nat (pos s + 2)) = Some x27 ->
  parse_ustring s t
  = Ok (let '(tk, np) := lit_result (t_count t) (input s) (pos s + 3) x75 x75 1
                           (find_close x27 false (skipn (Z.to_nat (pos s + 3)) (input s)))
        in (set_pos s (pos s + 2), tk, np)).
Proof. exact (parse_ustring_full s t). Qed.
Print Assumptions C18_parse_ustring.

(* ---------- q-quotes ---------- *)

Theorem C18_qstring offset s t a ch :
  let p := pos s + offset in
  0 <= p ->
  nth_error (input s) (Z.to_nat p) = Some a -> a = x71 \/ a = x51 ->
  nth_error (input s) (Z.to_nat (p + 1)) = Some x27 ->
  nth_error (input s) (Z.to_nat (p + 2)) = Some ch -> 33 <= code ch ->
  parse_qstring_core offset s t
  = Ok (let '(tk, np) := lit_result (t_count t) (input s) (p + 3) x71 x71 2
                           (first_match [q_close ch; x27] (skipn (Z.to_nat (p + 3)) (input s)))
        in (s, tk, np)).
Proof. exact (parse_qstring_core_full offset s t a ch). Qed.
Print Assumptions C18_qstring.

Theorem C18_nqstring_q s t a ch :
  0 <= pos s ->
  nth_error (input s) (Z.to_nat (pos s + 1)) = Some a -> a = x71 \/ a = x51 ->
  nth_error (input s) (Z.to_nat (pos s + 2)) = Some x27 ->
  nth_error (input s) (Z.to_nat (pos s + 3)) = Some ch -> 33 <= code ch ->
  parse_nqstring s t
  = Ok (let '(tk, np) := lit_result (t_count t) (input s) (pos s + 4) x71 x71 2
                           (first_match [q_close ch; x27] (skipn (Z.to_nat (pos s + 4)) (input s)))
        in (s, tk, np)).
Proof. exact (parse_nqstring_q_full s t a ch). Qed.
Print Assumptions C18_nqstring_q.

(* ---------- dollar quoting ---------- *)

Theorem C18_dollar_dollar s t :
  0 <= pos s ->
  nth_error (input s) (Z.to_nat (pos s + 1)) = Some x24 ->
  parse_money s t
  = Ok (let '(tk, np) := lit_result (t_count t) (input s) (pos s + 2) x24 x24 2
                           (first_match [x24; x24] (skipn (Z.to_nat (pos s + 2)) (input s)))
        in (s, tk, np)).
Proof. exact (parse_money_dollar_dollar_full s t). Qed.
Print Assumptions C18_dollar_dollar.

Theorem C18_dollar_tag s t :
  let p := pos s in
  let rest1 := skipn (Z.to_nat (p + 1)) (input s) in
  let n := span is_alpha rest1 in
  0 <= p ->
  nth_error (input s) (Z.to_nat p) = Some x24 ->
  1 <= n ->
  nth_error (input s) (Z.to_nat (p + n + 1)) = Some x24 ->
  parse_money s t
  = Ok (let pat := x24 :: firstn (Z.to_nat n) rest1 ++ [x24] in
        let '(tk, np) := lit_result (t_count t) (input s) (p + n + 2) x24 x24 (n + 2)
                           (first_match pat (skipn (Z.to_nat (p + n + 2)) (input s)))
        in (s, tk, np)).
Proof. exact (parse_money_tag_full s t). Qed.
Print Assumptions C18_dollar_tag.

(* ---------- non-vacuity: the hypotheses are inhabited, the oracle values are the expected ones ---------- *)

(* 'a\'b''c' rest : the escaped quote and the doubled quote are skipped; the
   terminator is the quote at content offset 7, scanning resumes at 9 *)
Example C18_ex_quote :
  let s := mkSt (bs "'a\'b''c' rest") 1 0 stats0 in
  nth_error (input s) (Z.to_nat (pos s)) = Some x27 /\
  find_close x27 false (skipn (Z.to_nat (pos s + 1)) (input s)) = Some 7 /\
  parse_string s tok0
  = Ok (s, mkTok 1 7 0 x73 x27 x27 (bs "a\'b''c"), 9).
Proof. vm_compute. repeat split; reflexivity. Qed.

(* the same literal in a single-quote context (virtual opening quote, flags = 2) *)
Example C18_ex_virtual_quote :
  let s := mkSt (bs "a\'b''c' rest") 2 0 stats0 in
  Z.land (flags s) (Z.lor c_sqli_flag_quote_single c_sqli_flag_quote_double) <> 0 /\
  flag2delimiter (flags s) = x27 /\
  find_close x27 false (input s) = Some 7 /\
  match tokenize s tok0 with
  | Ok (more, tk, s') => more = true /\ tk = mkTok 0 7 0 x73 x00 x27 (bs "a\'b''c") /\ pos s' = 8
  | _ => False
  end.
Proof. vm_compute. repeat split; try reflexivity. discriminate. Qed.

(* an unterminated literal: every quote is escaped or doubled *)
Example C18_ex_unterminated :
  find_close x27 false (bs "a\'b''") = None /\
  parse_string (mkSt (bs "'a\'b''") 1 0 stats0) tok0
  = Ok (mkSt (bs "'a\'b''") 1 0 stats0, mkTok 1 6 0 x73 x27 x00 (bs "a\'b''"), 7).
Proof. vm_compute. split; reflexivity. Qed.

(* q-quote whose delimiter byte is 0xE9 (>= 0x80): q'<E9>a'b<E9>' x *)
Example C18_ex_qstring_high_byte :
  let inp := bs "q'" ++ [xe9] ++ bs "a'b" ++ [xe9; x27] ++ bs " x" in
  let s := mkSt inp 1 0 stats0 in
  nth_error inp 0 = Some x71 /\ nth_error inp 1 = Some x27 /\ nth_error inp 2 = Some xe9 /\
  33 <= code xe9 /\ q_close xe9 = xe9 /\
  first_match [q_close xe9; x27] (skipn 3 inp) = Some 3 /\
  parse_qstring_core 0 s tok0 = Ok (s, mkTok 3 3 0 x73 x71 x71 (bs "a'b"), 8).
Proof. vm_compute. repeat split; try reflexivity; discriminate. Qed.

(* q'(..)' : the bracket is closed by its mirror image *)
Example C18_ex_qstring_paren :
  let s := mkSt (bs "q'(a)b)' x") 1 0 stats0 in
  first_match [q_close x28; x27] (skipn 3 (input s)) = Some 3 /\
  parse_qstring_core 0 s tok0 = Ok (s, mkTok 3 3 0 x73 x71 x71 (bs "a)b"), 8).
Proof. vm_compute. split; reflexivity. Qed.

(* $ab$ x $a$ $ab$ y : the shorter tag $a$ does not terminate the literal *)
Example C18_ex_dollar_tag :
  let s := mkSt (bs "$ab$ x $a$ $ab$ y") 1 0 stats0 in
  span is_alpha (skipn 1 (input s)) = 2 /\
  nth_error (input s) 0 = Some x24 /\ nth_error (input s) 3 = Some x24 /\
  first_match (bs "$ab$") (skipn 4 (input s)) = Some 7 /\
  parse_money s tok0 = Ok (s, mkTok 4 7 0 x73 x24 x24 (bs " x $a$ "), 15).
Proof. vm_compute. repeat split; reflexivity. Qed.

Example C18_ex_dollar_dollar :
  let s := mkSt (bs "$$ x $a$ $$$ y") 1 0 stats0 in
  nth_error (input s) 1 = Some x24 /\
  first_match (bs "$$") (skipn 2 (input s)) = Some 7 /\
  parse_money s tok0 = Ok (s, mkTok 2 7 0 x73 x24 x24 (bs " x $a$ "), 11).
Proof. vm_compute. repeat split; reflexivity. Qed.
