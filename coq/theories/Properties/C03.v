(* C03 — canonical SQL injection families are detected (finite core).
   Every (prefix, template, tail) triple of the frozen grammar, under every
   uniform separator of W + {/**/}, in canonical upper case, is reported by the
   model: decided by vm_compute, sharded (gen/C03Core_*.v), bound = the frozen
   list itself.  The infinite dimensions are lifted elsewhere: every ASCII case
   assignment in this file's C03_core_any_case (by the C10 theorem), separator
   mixing and whitespace runs in Properties/C03ws.v. *)
From Coq Require Import List ZArith String Bool.
From Coq.Strings Require Import Byte.
From LI Require Import Prelude Base SqliLex SqliFold GrammarSqli.
From LIGen Require Import C03CoreAll.
Import ListNotations.

Theorem C03_core :
  forall segs sep, In segs all_cases -> In sep separators ->
  exists fp, is_sqli (inst sep segs) = Ok (true, fp).
Proof. exact (core_ok_spec all_cases all_cases_ok). Qed.
Print Assumptions C03_core.

(* non-vacuity: the frozen grammar is large and its members are attack strings *)
Example C03_nonvacuous :
  (19000 <? n_triples)%N = true /\ (19000 <? N.of_nat (List.length all_cases))%N = true /\
  detected (inst (bs " ") [bs "1'"; bs "OR"; bs "1=1--"]) = true /\
  detected (bs "hello world") = false.
Proof. vm_compute. intuition. Qed.

(* Lifting of the core to every ASCII case assignment: no member of the core contains one
   of the case-sensitive neighbourhoods excluded by C10 (a vm_compute sweep over all
   19 215 x 9 instances: GrammarLift.all_cases_liftable), so C10_partial2 applies to each. *)
From LI Require Import Spec.CiSpec Proofs.GrammarLift.

Theorem C03_core_any_case :
  forall segs sep s', In segs all_cases -> In sep separators -> cv (inst sep segs) s' ->
  exists fp, is_sqli s' = Ok (true, fp).
Proof. exact core_case_lift. Qed.
Print Assumptions C03_core_any_case.

Example C03_any_case_nonvacuous :
  cv (inst (bs " ") [bs "1'"; bs "OR"; bs "1=1--"]) (bs "1' oR 1=1--").
Proof. repeat constructor. Qed.
