(* C04 (wrapped vectors) -- a black vector hidden from some contexts inside a (quoted)
   attribute value of a decoy tag, or behind a tag form that leaves tokenizer flags set,
   with an unfinished construct in front of it or behind it.

   WHY.  A seeded defect (one tokenizer state shared by the five contexts of IsXSS, the
   is-close flag leaking from one context into the next) changed the verdict only on inputs of
   the shape   <a title="><script>alert(1)</script>">x</a   -- a vector wrapped in a quoted
   value and followed by an unfinished end tag.  No member of the vector grammar has that shape.

   THE FAMILY.  /verif/grammar/xss_wrapped.txt (frozen, like the SQL attack grammar): 12 vectors
   x 13 wrappers (none; quoted / back-quoted / unquoted value of a decoy tag; plain break-outs;
   end tags with white space, a slash, an attribute; bogus end tags) x 20 tails (unfinished end
   tag, start tag, attribute, quoted value, comment, declaration, processing instruction, CDATA,
   character reference; finished end tags) placed behind or in front of the wrapped vector, and
   two flag-setting tag forms in a row in front of a directly closed black tag.  Calibrated once
   on the repaired tree (`harness calibrate-xss`): of 10 006 candidates that carry a black vector
   the 9 168 that IsXSS reports are members.  (The others are not reported; the most notable
   sub-family is recorded as observation O1 in DESIGN.md: an end tag written with white space or
   attributes leaves the is-close flag set, and a directly closed start tag behind it is then read
   as a closing tag -- the reference algorithm does the same.)

   WHAT IS PROVED.  The model of IsXSS reports every member (sharded vm_compute sweeps over the
   generated lists gen/C04Wrapped_k.v) and every ASCII case assignment of every member (C11a; its
   side condition is a second sweep).  The harness replays the same file on IsXSS on every run. *)
From Coq Require Import List ZArith String Bool.
From Coq.Strings Require Import Byte.
From LI Require Import Prelude Base Html5 Xss Spec.GrammarXss Proofs.C04ExtLift.
From LI Require Spec.XCiSpec.
From LIGen Require Import C04WrappedAll.
Import ListNotations.

Theorem C04_wrapped : forall v, In v wrapped -> is_xss v = Ok true.
Proof. exact (detected_list_sound wrapped wrapped_ok). Qed.
Print Assumptions C04_wrapped.

(* wrapped_ci: the members without a `<![CDATA[` look-alike (all but those whose tail is the
   CDATA opener; the tokenizer compares that opener case-sensitively, so C11a excludes it) *)
Theorem C04_wrapped_any_case :
  forall v s', In v wrapped_ci -> XCiSpec.cv v s' -> is_xss s' = Ok true.
Proof. exact (detected_list_case_lift wrapped_ci wrapped_ci_ok wrapped_ci_no_cdata). Qed.
Print Assumptions C04_wrapped_any_case.

(* the input on which the seeded defect changed the verdict is a member *)
Example C04e_member :
  existsb (bytes_eqb (bs "<a title=""><script>alert(1)</script>"">x</a")) wrapped = true.
Proof. vm_compute. reflexivity. Qed.

Example C04e_size : List.length wrapped = N.to_nat n_wrapped /\ Nat.leb 8000 (List.length wrapped_ci) = true.
Proof. split; vm_compute; reflexivity. Qed.
