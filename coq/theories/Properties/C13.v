(* C13 — XSS contexts mean what they say.
   (a) IsXSS is the disjunction of the five context verdicts.
   (b), (c): embed / prefix invariance — see the theorems below and their status. *)
From Coq Require Import List ZArith String Bool.
From Coq.Strings Require Import Byte.
From LI Require Import Prelude Base Html5 Xss.
From LIGen Require Import Consts.
Import ListNotations.

Theorem C13a_or_of_contexts :
  forall s b0 b1 b2 b3 b4,
    xss_ctx s c_html5_flags_data_state = Ok b0 ->
    xss_ctx s c_html5_flags_value_no_quote = Ok b1 ->
    xss_ctx s c_html5_flags_value_single_quote = Ok b2 ->
    xss_ctx s c_html5_flags_value_double_quote = Ok b3 ->
    xss_ctx s c_html5_flags_value_back_quote = Ok b4 ->
    is_xss s = Ok (b0 || b1 || b2 || b3 || b4).
Proof.
  intros s b0 b1 b2 b3 b4 H0 H1 H2 H3 H4. unfold is_xss.
  rewrite H0. cbn [bind]. destruct b0; [reflexivity|].
  rewrite H1. cbn [bind]. destruct b1; [reflexivity|].
  rewrite H2. cbn [bind]. destruct b2; [reflexivity|].
  rewrite H3. cbn [bind]. destruct b3; [reflexivity|].
  rewrite H4. reflexivity.
Qed.
Print Assumptions C13a_or_of_contexts.

Example C13a_nonvacuous :
  xss_ctx (bs "x onclick=1") c_html5_flags_data_state = Ok false /\
  xss_ctx (bs "x onclick=1") c_html5_flags_value_no_quote = Ok true /\
  is_xss (bs "x onclick=1") = Ok true.
Proof. vm_compute. intuition. Qed.
