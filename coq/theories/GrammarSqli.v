(* GrammarSqli: the evaluator of the frozen SQLi attack grammar (C03 core). *)
From Coq Require Import List ZArith String Bool.
From Coq.Strings Require Import Byte.
From LI Require Import Prelude Base SqliLex SqliFold.
Import ListNotations.

(* W = the word-delimiter bytes that isByteWhite and the dispatch table treat as whitespace *)
Definition W : list bytes :=
  [[x20]; [x09]; [x0a]; [x0b]; [x0c]; [x0d]; [xa0]; [x00]].
Definition separators : list bytes := W ++ [bs "/**/"].

(* a case is the attack string pre-split at its separator slots *)
Fixpoint inst (sep : bytes) (segs : list bytes) : bytes :=
  match segs with
  | [] => []
  | [s] => s
  | s :: rest => s ++ sep ++ inst sep rest
  end.

Definition detected (s : bytes) : bool :=
  match is_sqli s with Ok (true, _) => true | _ => false end.

Definition core_ok (cases : list (list bytes)) : bool :=
  forallb (fun segs => forallb (fun sep => detected (inst sep segs)) separators) cases.

Lemma core_ok_app a b : core_ok (a ++ b) = core_ok a && core_ok b.
Proof. unfold core_ok. apply forallb_app. Qed.

Lemma core_ok_spec cases :
  core_ok cases = true ->
  forall segs sep, In segs cases -> In sep separators ->
  exists fp, is_sqli (inst sep segs) = Ok (true, fp).
Proof.
  unfold core_ok. intros H segs sep Hs Hp.
  rewrite forallb_forall in H. specialize (H segs Hs).
  rewrite forallb_forall in H. specialize (H sep Hp).
  unfold detected in H.
  destruct (is_sqli (inst sep segs)) as [[[|] fp]| | |]; try discriminate.
  exists fp. reflexivity.
Qed.
