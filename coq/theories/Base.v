(* Base: bytes, the result monad and the Go string primitives used by the
   model.  Definitions only (lemmas live in BaseFacts.v). *)
From Coq Require Import List ZArith String Bool.
From Coq.Strings Require Import Byte.
From Coq.FSets Require Import FMapPositive.
From LI Require Import Prelude.
Import ListNotations.
Local Open Scope Z_scope.

Definition bytes := list byte.

(* ---------- result monad ---------- *)

Inductive res (A : Type) : Type :=
| Ok (a : A)
| Panic (site : string)
| OutOfFuel
| StackOverflow.
Arguments Ok {A} a.
Arguments Panic {A} site.
Arguments OutOfFuel {A}.
Arguments StackOverflow {A}.

Definition bind {A B} (m : res A) (f : A -> res B) : res B :=
  match m with
  | Ok a => f a
  | Panic s => Panic s
  | OutOfFuel => OutOfFuel
  | StackOverflow => StackOverflow
  end.

Declare Scope res_scope.
Delimit Scope res_scope with res.
Notation "x <- m ;; k" := (bind m (fun x => k))
  (at level 61, m at next level, right associativity) : res_scope.
Notation "' pat <- m ;; k" := (bind m (fun x => match x with pat => k end))
  (at level 61, pat pattern, m at next level, right associativity) : res_scope.
Open Scope res_scope.

Definition is_ok {A} (m : res A) : bool := match m with Ok _ => true | _ => false end.

(* ---------- bytes ---------- *)

Definition code (b : byte) : Z := Z.of_N (Byte.to_N b).
Definition beq (a b : byte) : bool := code a =? code b.
Definition byte_of_Z (z : Z) : byte :=
  match Byte.of_N (Z.to_N (z mod 256)) with Some b => b | None => x00 end.

Fixpoint bytes_eqb (a b : bytes) : bool :=
  match a, b with
  | [], [] => true
  | x :: a', y :: b' => beq x y && bytes_eqb a' b'
  | _, _ => false
  end.

Definition len (s : bytes) : Z := Z.of_nat (List.length s).

(* s[i] *)
Definition get (site : string) (s : bytes) (i : Z) : res byte :=
  if 0 <=? i then
    match nth_error s (Z.to_nat i) with
    | Some b => Ok b
    | None => Panic site
    end
  else Panic site.

(* s[i:] *)
Definition drop (site : string) (s : bytes) (i : Z) : res bytes :=
  if (0 <=? i) && (i <=? len s) then Ok (skipn (Z.to_nat i) s) else Panic site.

(* s[:j] *)
Definition take (site : string) (s : bytes) (j : Z) : res bytes :=
  if (0 <=? j) && (j <=? len s) then Ok (firstn (Z.to_nat j) s) else Panic site.

(* s[i:j] *)
Definition slice (site : string) (s : bytes) (i j : Z) : res bytes :=
  if (0 <=? i) && (i <=? j) && (j <=? len s)
  then Ok (firstn (Z.to_nat (j - i)) (skipn (Z.to_nat i) s))
  else Panic site.

(* strings.IndexByte: -1 when absent *)
Fixpoint index_byte (s : bytes) (c : byte) : Z :=
  match s with
  | [] => -1
  | b :: s' => if beq b c then 0
               else let r := index_byte s' c in if r <? 0 then -1 else r + 1
  end.

Fixpoint has_prefix (s p : bytes) : bool :=
  match p, s with
  | [], _ => true
  | x :: p', y :: s' => beq x y && has_prefix s' p'
  | _ :: _, [] => false
  end.

(* strings.Index: -1 when absent; the empty separator is found at 0 *)
Fixpoint index (s sep : bytes) : Z :=
  if has_prefix s sep then 0
  else match s with
       | [] => -1
       | _ :: s' => let r := index s' sep in if r <? 0 then -1 else r + 1
       end.

Definition contains (s sep : bytes) : bool := 0 <=? index s sep.

Definition mem (b : byte) (set : bytes) : bool := existsb (beq b) set.

(* number of leading bytes satisfying p *)
Fixpoint span (p : byte -> bool) (s : bytes) : Z :=
  match s with
  | [] => 0
  | b :: s' => if p b then 1 + span p s' else 0
  end.

(* the Go helper loops `for i := 0; i < length; i++ { if !p(s[i]) return i }; return length`:
   they index s[i] for every i < length, so a length beyond len(s) panics. *)
Fixpoint span_n (site : string) (p : byte -> bool) (s : bytes) (n : nat) {struct n} : res Z :=
  match n with
  | O => Ok 0
  | S n' =>
      match s with
      | [] => Panic site
      | b :: s' => if p b then (r <- span_n site p s' n' ;; Ok (1 + r)) else Ok 0
      end
  end.

Definition span_len (site : string) (p : byte -> bool) (s : bytes) (length : Z) : res Z :=
  if length <? 0 then Ok length else span_n site p s (Z.to_nat length).

Definition remove_byte (c : byte) (s : bytes) : bytes :=
  filter (fun b => negb (beq b c)) s.

(* ---------- ASCII case mapping and the ASCII view of strings.ToUpper / ToLower ---------- *)

Definition is_lower (b : byte) : bool := (97 <=? code b) && (code b <=? 122).
Definition is_upper (b : byte) : bool := (65 <=? code b) && (code b <=? 90).
Definition is_alpha (b : byte) : bool := is_lower b || is_upper b.
Definition upper_ascii (b : byte) : byte := if is_lower b then byte_of_Z (code b - 32) else b.
Definition lower_ascii (b : byte) : byte := if is_upper b then byte_of_Z (code b + 32) else b.
Definition is_ascii (b : byte) : bool := code b <? 128.

(* strings.ToUpper maps runes.  The result is pure ASCII exactly when every
   non-ASCII rune of the argument has an ASCII upper case; with the Go in use
   these are U+017F (C5 BF) -> 'S' and U+0131 (C4 B1) -> 'I' only; every other
   byte >= 0x80 (valid rune or U+FFFD replacement) leaves a non-ASCII byte in
   the result, which can never equal an ASCII literal or table key: None. *)
Fixpoint go_upper_view (s : bytes) : option bytes :=
  match s with
  | [] => Some []
  | b :: s' =>
      if is_ascii b then option_map (cons (upper_ascii b)) (go_upper_view s')
      else match s' with
           | b2 :: s'' =>
               if beq b xc5 && beq b2 xbf then option_map (cons x53) (go_upper_view s'')
               else if beq b xc4 && beq b2 xb1 then option_map (cons x49) (go_upper_view s'')
               else None
           | [] => None
           end
  end.

(* strings.ToLower: U+0130 (C4 B0) -> 'i', U+212A (E2 84 AA) -> 'k'. *)
Fixpoint go_lower_view (s : bytes) : option bytes :=
  match s with
  | [] => Some []
  | b :: s' =>
      if is_ascii b then option_map (cons (lower_ascii b)) (go_lower_view s')
      else match s' with
           | b2 :: s'' =>
               if beq b xc4 && beq b2 xb0 then option_map (cons x69) (go_lower_view s'')
               else match s'' with
                    | b3 :: s''' =>
                        if beq b xe2 && beq b2 x84 && beq b3 xaa
                        then option_map (cons x6b) (go_lower_view s''')
                        else None
                    | [] => None
                    end
           | [] => None
           end
  end.

(* a == strings.ToUpper(b) for an ASCII literal a *)
Definition to_upper_cmp (a b : bytes) : bool :=
  match go_upper_view b with Some u => bytes_eqb a u | None => false end.

Definition to_lower_cmp (a b : bytes) : bool :=
  match go_lower_view b with Some u => bytes_eqb a u | None => false end.

(* ---------- keyword map ---------- *)

Definition encode_step (p : positive) (b : byte) : positive :=
  match (N.pos p * 256 + Byte.to_N b)%N with
  | Npos q => q
  | N0 => 1%positive
  end.

Definition encode (s : bytes) : positive := fold_left encode_step s 1%positive.

Definition kwmap := PositiveMap.t (bytes * byte).

Definition kwmap_of_list (l : list (bytes * byte)) : kwmap :=
  fold_left (fun m kv => PositiveMap.add (encode (fst kv)) kv m) l (PositiveMap.empty _).

(* Go map look-up on an already upper-cased key; x00 when absent *)
Definition kw_find (m : kwmap) (key : bytes) : byte :=
  match PositiveMap.find (encode key) m with
  | Some (k, v) => if bytes_eqb k key then v else x00
  | None => x00
  end.

Definition all_bytes : list byte :=
  Eval vm_compute in
    map (fun n => byte_of_Z (Z.of_nat n)) (seq 0 256).
