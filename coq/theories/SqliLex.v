(* SqliLex: Go-mirroring model of the SQL tokenizer
   (sqli_token.go, sqli_helpers.go, sqli_parse.go, sqli_data.go parseQStringCore,
   sqli.go tokenize).  Definitions only.

   Conventions: Go int = Z; every Go index/slice expression is a checked
   primitive (get/drop/take/slice) that yields Panic when Go would panic;
   s.length is len(s.input) (sqliInit sets it and nothing else writes it). *)
From Coq Require Import List ZArith String Bool.
From Coq.Strings Require Import Byte.
From Coq.FSets Require Import FMapPositive.
From LI Require Import Prelude Base.
From LIGen Require Import Tables Dispatch Consts.
Import ListNotations.
Local Open Scope Z_scope.
Local Open Scope res_scope.

(* ---------- tables ---------- *)

Definition sql_keywords : list (bytes * byte) := Eval vm_compute in sql_keywords_src.
Definition sql_kwmap : kwmap := Eval vm_compute in kwmap_of_list sql_keywords.

(* searchKeyword: upper-case the probe (Go strings.ToUpper), then map look-up *)
Definition search_keyword (key : bytes) : byte :=
  match go_upper_view key with
  | Some u => kw_find sql_kwmap u
  | None => x00
  end.

Definition word_accept : bytes := Eval vm_compute in word_accept_src.
Definition var_accept : bytes := Eval vm_compute in var_accept_src.

(* ---------- token and scanner state ---------- *)

Record token := mkTok {
  t_pos : Z; t_len : Z; t_count : Z;
  t_cat : byte; t_open : byte; t_close : byte;
  t_val : bytes }.

Definition tok0 : token := mkTok 0 0 0 x00 x00 x00 [].

Definition set_cat (t : token) (c : byte) : token :=
  mkTok (t_pos t) (t_len t) (t_count t) c (t_open t) (t_close t) (t_val t).
Definition set_open (t : token) (c : byte) : token :=
  mkTok (t_pos t) (t_len t) (t_count t) (t_cat t) c (t_close t) (t_val t).
Definition set_close (t : token) (c : byte) : token :=
  mkTok (t_pos t) (t_len t) (t_count t) (t_cat t) (t_open t) c (t_val t).
Definition set_count (t : token) (n : Z) : token :=
  mkTok (t_pos t) (t_len t) n (t_cat t) (t_open t) (t_close t) (t_val t).

Record stats := mkStats { n_ddx : Z; n_hash : Z; n_folds : Z; n_tokens : Z }.
Definition stats0 := mkStats 0 0 0 0.

Record sqlst := mkSt { input : bytes; flags : Z; pos : Z; st : stats }.
Definition slen (s : sqlst) : Z := len (input s).
Definition set_pos (s : sqlst) (p : Z) : sqlst := mkSt (input s) (flags s) p (st s).
Definition set_stats (s : sqlst) (x : stats) : sqlst := mkSt (input s) (flags s) (pos s) x.
Definition has_flag (s : sqlst) (f : Z) : bool := negb (Z.land (flags s) f =? 0).

(* ---------- sqli_token.go ---------- *)

(* func (t *sqliToken) assign(tokenType byte, pos, length int, value string) *)
Definition assign (t : token) (ty : byte) (p length : Z) (value : bytes) : res token :=
  let last := if length <? c_token_size then length else c_token_size - 1 in
  v <- take "assign" value last ;;
  Ok (mkTok p last (t_count t) ty (t_open t) (t_close t) v).

(* func isBackslashEscaped(str string) bool — the backward count of '\' *)
Fixpoint trailing_bs_count (rev_str : bytes) : Z :=
  match rev_str with
  | b :: r => if beq b x5c then 1 + trailing_bs_count r else 0
  | [] => 0
  end.
Definition is_backslash_escaped (str : bytes) : bool :=
  negb (Z.rem (trailing_bs_count (rev str)) 2 =? 0).

(* func isDoubleDelimiterEscaped(str string) bool *)
Definition is_double_delimiter_escaped (str : bytes) : bool :=
  match str with
  | a :: b :: _ => beq a b
  | _ => false
  end.

(* The loop of parseStringCore.  `k` is the offset of `str` inside s
   (str = s[k:], i.e. k = len(s) - len(str)); start = pos+offset. *)
Fixpoint string_core_loop (fuel : nat) (s : bytes) (start k : Z) (delim : byte)
  : res (option Z) :=           (* Some q: closing quote at absolute offset q; None: unterminated *)
  match fuel with
  | O => OutOfFuel
  | S fuel' =>
      str <- drop "parseStringCore:str" s k ;;
      let index := index_byte str delim in
      if index =? -1 then Ok None
      else
        let k := k + index in
        str <- drop "parseStringCore:str[index:]" s k ;;
        before <- slice "parseStringCore:escaped" s start k ;;
        if is_backslash_escaped before then
          (_ <- drop "parseStringCore:str[1:]" str 1 ;; string_core_loop fuel' s start (k + 1) delim)
        else if is_double_delimiter_escaped str then
          (_ <- drop "parseStringCore:str[2:]" str 2 ;; string_core_loop fuel' s start (k + 2) delim)
        else Ok (Some k)
  end.

(* func (t *sqliToken) parseStringCore(s string, length, pos, offset int, delimiter byte) int *)
Definition parse_string_core (t : token) (s : bytes) (length p offset : Z) (delim : byte)
  : res (token * Z) :=
  _ <- drop "parseStringCore:s[pos+offset:]" s (p + offset) ;;
  let t := set_open t (if 0 <? offset then delim else x00) in
  r <- string_core_loop (S (List.length s)) s (p + offset) (p + offset) delim ;;
  content <- drop "parseStringCore:s[pos+offset:]" s (p + offset) ;;
  match r with
  | None =>
      t <- assign t b_sqli_token_type_string (p + offset) (length - p - offset) content ;;
      Ok (set_close t x00, length)
  | Some q =>
      (* len(s[pos+offset:]) - len(str) = q - (pos+offset); return len(s)-len(str)+1 = q+1 *)
      t <- assign t b_sqli_token_type_string (p + offset) (q - (p + offset)) content ;;
      Ok (set_close t delim, q + 1)
  end.

(* isUnaryOp / isArithmeticOp *)
Definition is_unary_op (t : token) : res bool :=
  if negb (beq (t_cat t) b_sqli_token_type_operator) then Ok false
  else if t_len t =? 1 then
    c <- get "isUnaryOp:val[0]" (t_val t) 0 ;;
    Ok (beq c x2b || beq c x2d || beq c x21 || beq c x7e)
  else if t_len t =? 2 then
    c0 <- get "isUnaryOp:val[0]" (t_val t) 0 ;;
    if beq c0 x21 then (c1 <- get "isUnaryOp:val[1]" (t_val t) 1 ;; Ok (beq c1 x21)) else Ok false
  else if t_len t =? 3 then
    v <- take "isUnaryOp:val[:3]" (t_val t) 3 ;;
    Ok (to_upper_cmp (bs "NOT") v)
  else Ok false.

Definition is_arithmetic_op (t : token) : res bool :=
  if beq (t_cat t) b_sqli_token_type_operator && (t_len t =? 1) then
    c <- get "isArithmeticOp:val[0]" (t_val t) 0 ;;
    Ok (beq c x2a || beq c x2f || beq c x2b || beq c x2d || beq c x25)
  else Ok false.

(* ---------- sqli_helpers.go ---------- *)

Definition flag2delimiter (fl : Z) : byte :=
  if negb (Z.land fl c_sqli_flag_quote_single =? 0) then b_byte_single
  else if negb (Z.land fl c_sqli_flag_quote_double =? 0) then b_byte_double
  else x00.

Definition is_byte_white (ch : byte) : bool :=
  beq ch x20 || beq ch x09 || beq ch x0a || beq ch x0b || beq ch x0c || beq ch x0d
  || beq ch xa0 || beq ch x00.

(* strLenSpn(s, length, accept) and strLenCSpn(s, length, table) *)
Definition str_len_spn (s : bytes) (length : Z) (accept : bytes) : res Z :=
  span_len "strLenSpn" (fun b => mem b accept) s length.
Definition str_len_cspn (s : bytes) (length : Z) (accept : bytes) : res Z :=
  span_len "strLenCSpn" (fun b => negb (mem b accept)) s length.

Definition is_mysql_comment (s : bytes) (p : Z) : res bool :=
  if len s <=? p + 2 then Ok false
  else (c <- get "isMysqlComment" s (p + 2) ;; Ok (beq c x21)).

(* ---------- sqli_parse.go ---------- *)

Definition lexer := sqlst -> token -> res (sqlst * token * Z).

Definition input_from (site : string) (s : sqlst) (p : Z) : res bytes := drop site (input s) p.
Definition at_ (site : string) (s : sqlst) (p : Z) : res byte := get site (input s) p.

Definition parse_eol_comment : lexer := fun s t =>
  rest <- input_from "parseEolComment" s (pos s) ;;
  let idx := index_byte rest x0a in
  if idx =? -1 then
    t <- assign t b_sqli_token_type_comment (pos s) (slen s - pos s) rest ;;
    Ok (s, t, slen s)
  else
    t <- assign t b_sqli_token_type_comment (pos s) idx rest ;;
    Ok (s, t, pos s + idx + 1).

Definition parse_other : lexer := fun s t =>
  rest <- input_from "parseOther" s (pos s) ;;
  t <- assign t b_sqli_token_type_unknown (pos s) 1 rest ;;
  Ok (s, t, pos s + 1).

Definition parse_white : lexer := fun s t => Ok (s, t, pos s + 1).

Definition parse_operator1 : lexer := fun s t =>
  rest <- input_from "parseOperator1" s (pos s) ;;
  t <- assign t b_sqli_token_type_operator (pos s) 1 rest ;;
  Ok (s, t, pos s + 1).

Definition parse_byte : lexer := fun s t =>
  c <- at_ "parseByte" s (pos s) ;;
  rest <- input_from "parseByte" s (pos s) ;;
  t <- assign t c (pos s) 1 rest ;;
  Ok (s, t, pos s + 1).

Definition parse_hash : lexer := fun s t =>
  let s := set_stats s (mkStats (n_ddx (st s)) (n_hash (st s) + 1) (n_folds (st s)) (n_tokens (st s))) in
  if has_flag s c_sqli_flag_sqlmysql then
    let s := set_stats s (mkStats (n_ddx (st s)) (n_hash (st s) + 1) (n_folds (st s)) (n_tokens (st s))) in
    parse_eol_comment s t
  else
    t <- assign t b_sqli_token_type_operator (pos s) 1 (bs "#") ;;
    Ok (s, t, pos s + 1).

Definition parse_dash : lexer := fun s t =>
  let p := pos s in
  c1 <- (if p + 2 <? slen s then
           (a <- at_ "parseDash:1" s (p + 1) ;;
            if beq a x2d then (b <- at_ "parseDash:1" s (p + 2) ;; Ok (is_byte_white b)) else Ok false)
         else Ok false) ;;
  if (c1 : bool) then parse_eol_comment s t else
  c2 <- (if p + 2 =? slen s then (a <- at_ "parseDash:2" s (p + 1) ;; Ok (beq a x2d)) else Ok false) ;;
  if (c2 : bool) then parse_eol_comment s t else
  c3 <- (if p + 1 <? slen s then
           (a <- at_ "parseDash:3" s (p + 1) ;; Ok (beq a x2d && has_flag s c_sqli_flag_sqlansi))
         else Ok false) ;;
  if (c3 : bool) then
    let s := set_stats s (mkStats (n_ddx (st s) + 1) (n_hash (st s)) (n_folds (st s)) (n_tokens (st s))) in
    parse_eol_comment s t
  else
    t <- assign t b_sqli_token_type_operator p 1 (bs "-") ;;
    Ok (s, t, p + 1).

Definition parse_slash : lexer := fun s t =>
  let p := pos s in
  not_comment <- (if p + 1 =? slen s then Ok true
                  else (a <- at_ "parseSlash" s (p + 1) ;; Ok (negb (beq a x2a)))) ;;
  if (not_comment : bool) then parse_operator1 s t else
  body <- input_from "parseSlash:input[pos+2:]" s (p + 2) ;;
  let idx := index body (bs "*/") in
  let length := if idx =? -1 then slen s - p else 2 + idx + 2 in
  nested <- (if negb (idx =? -1) then
               (inner <- slice "parseSlash:nested" (input s) (p + 2) (p + 2 + idx + 1) ;;
                Ok (contains inner (bs "/*")))
             else Ok false) ;;
  ctype <- (if (nested : bool) then Ok b_sqli_token_type_evil
            else (m <- is_mysql_comment (input s) p ;;
                  Ok (if (m : bool) then b_sqli_token_type_evil else b_sqli_token_type_comment))) ;;
  rest <- input_from "parseSlash" s p ;;
  t <- assign t ctype p length rest ;;
  Ok (s, t, p + length).

Definition parse_backslash : lexer := fun s t =>
  let p := pos s in
  isN <- (if p + 1 <? slen s then (a <- at_ "parseBackSlash" s (p + 1) ;; Ok (beq a x4e)) else Ok false) ;;
  rest <- input_from "parseBackSlash" s p ;;
  if (isN : bool) then
    t <- assign t b_sqli_token_type_number p 2 rest ;; Ok (s, t, p + 2)
  else
    t <- assign t b_sqli_token_type_backslash p 1 rest ;; Ok (s, t, p + 1).

Definition parse_operator2 : lexer := fun s t =>
  let p := pos s in
  if slen s <=? p + 1 then parse_operator1 s t else
  three <- (if p + 2 <? slen s then
              (a <- at_ "parseOperator2" s p ;;
               if beq a x3c then
                 (b <- at_ "parseOperator2" s (p + 1) ;;
                  if beq b x3d then (c <- at_ "parseOperator2" s (p + 2) ;; Ok (beq c x3e)) else Ok false)
               else Ok false)
            else Ok false) ;;
  rest <- input_from "parseOperator2" s p ;;
  if (three : bool) then
    t <- assign t b_sqli_token_type_operator p 3 rest ;; Ok (s, t, p + 3)
  else
    two <- slice "parseOperator2:input[pos:pos+2]" (input s) p (p + 2) ;;
    let ch := search_keyword two in
    if negb (beq ch x00) then
      t <- assign t ch p 2 rest ;; Ok (s, t, p + 2)
    else
      a <- at_ "parseOperator2" s p ;;
      if beq a x3a then
        t <- assign t b_sqli_token_type_colon p 1 rest ;; Ok (s, t, p + 1)
      else parse_operator1 s t.

Definition parse_string : lexer := fun s t =>
  d <- at_ "parseString" s (pos s) ;;
  '(t, np) <- parse_string_core t (input s) (slen s) (pos s) 1 d ;;
  Ok (s, t, np).

(* the keyword split loop of parseWord: for i := 0; i < current.len; i++ *)
Fixpoint word_split_loop (fuel : nat) (val : bytes) (i n : Z) : res (option (Z * byte)) :=
  match fuel with
  | O => if i <? n then OutOfFuel else Ok None
  | S fuel' =>
      if i <? n then
        d <- get "parseWord:val[i]" val i ;;
        if beq d x2e || beq d x60 then
          pre <- take "parseWord:val[:i]" val i ;;
          let ch := search_keyword pre in
          if negb (beq ch b_sqli_token_type_none) && negb (beq ch b_sqli_token_type_bare_word)
          then Ok (Some (i, ch))
          else word_split_loop fuel' val (i + 1) n
        else word_split_loop fuel' val (i + 1) n
      else Ok None
  end.

Definition parse_word : lexer := fun s t =>
  let p := pos s in
  rest <- input_from "parseWord" s p ;;
  let limit := if c_token_size <? slen s - p then c_token_size else slen s - p in
  length <- str_len_cspn rest limit word_accept ;;
  t <- assign t b_sqli_token_type_bare_word p length rest ;;
  split <- word_split_loop (Z.to_nat c_token_size) (t_val t) 0 (t_len t) ;;
  match split with
  | Some (i, ch) =>
      t <- assign tok0 ch p i rest ;;
      Ok (s, t, p + i)
  | None =>
      length <- (if length =? c_token_size then
                   (more <- input_from "parseWord:extend" s (p + length) ;;
                    n <- str_len_cspn more (slen s - p - length) word_accept ;;
                    Ok (length + n))
                 else Ok length) ;;
      if length <? c_token_size then
        v <- take "parseWord:val[:length]" (t_val t) length ;;
        let ch := search_keyword v in
        let ch := if beq ch x00 then b_sqli_token_type_bare_word else ch in
        Ok (s, set_cat t ch, p + length)
      else Ok (s, t, p + length)
  end.

Definition parse_tick : lexer := fun s t =>
  '(t, np) <- parse_string_core t (input s) (slen s) (pos s) 1 b_byte_tick ;;
  v <- take "parseTick:val[:len]" (t_val t) (t_len t) ;;
  let ch := search_keyword v in
  if beq ch b_sqli_token_type_function
  then Ok (s, set_cat t b_sqli_token_type_function, np)
  else Ok (s, set_cat t b_sqli_token_type_bare_word, np).

Definition parse_var : lexer := fun s t =>
  let p := pos s + 1 in
  two <- (if p <? slen s then (a <- at_ "parseVar" s p ;; Ok (beq a x40)) else Ok false) ;;
  let p := if (two : bool) then p + 1 else p in
  let t := set_count t (if (two : bool) then 2 else 1) in
  special <- (if p <? slen s then
                (a <- at_ "parseVar" s p ;;
                 Ok (if beq a x60 then 1 else if beq a b_byte_single || beq a b_byte_double then 2 else 0))
              else Ok 0) ;;
  if special =? 1 then
    let s := set_pos s p in
    '(s, t, np) <- parse_tick s t ;;
    Ok (s, set_cat t b_sqli_token_type_variable, np)
  else if special =? 2 then
    let s := set_pos s p in
    '(s, t, np) <- parse_string s t ;;
    Ok (s, set_cat t b_sqli_token_type_variable, np)
  else
    rest <- input_from "parseVar" s p ;;
    length <- str_len_cspn rest (slen s - p) var_accept ;;
    if length =? 0 then
      t <- assign t b_sqli_token_type_variable p 0 rest ;; Ok (s, t, p)
    else
      t <- assign t b_sqli_token_type_variable p length rest ;; Ok (s, t, p + length).

Definition parse_money : lexer := fun s t =>
  let p := pos s in
  if p + 1 =? slen s then
    t <- assign t b_sqli_token_type_bare_word p 1 (bs "$") ;; Ok (s, t, slen s)
  else
    rest1 <- input_from "parseMoney:input[pos+1:]" s (p + 1) ;;
    length <- str_len_spn rest1 (slen s - p - 1) (bs "0123456789.,") ;;
    if length =? 0 then
      c <- at_ "parseMoney" s (p + 1) ;;
      if beq c x24 then
        body <- input_from "parseMoney:input[pos+2:]" s (p + 2) ;;
        let idx := index body (bs "$$") in
        if idx =? -1 then
          t <- assign t b_sqli_token_type_string (p + 2) (slen s - (p + 2)) body ;;
          Ok (s, set_close (set_open t x24) x00, slen s)
        else
          t <- assign t b_sqli_token_type_string (p + 2) idx body ;;
          Ok (s, set_close (set_open t x24) x24, p + 2 + idx + 2)
      else
        xlen <- str_len_spn rest1 (slen s - p - 1)
                  (bs "abcdefghjiklmnopqrstuvwxyzABCDEFGHIJKLMNOPQRSTUVWXYZ") ;;
        if xlen =? 0 then
          t <- assign t b_sqli_token_type_bare_word p 1 (bs "$") ;; Ok (s, t, p + 1)
        else
          no_close <- (if p + xlen + 1 =? slen s then Ok true
                       else (a <- at_ "parseMoney" s (p + xlen + 1) ;; Ok (negb (beq a x24)))) ;;
          if (no_close : bool) then
            t <- assign t b_sqli_token_type_bare_word p 1 (bs "$") ;; Ok (s, t, p + 1)
          else
            body <- input_from "parseMoney:input[pos+xlen+2:]" s (p + xlen + 2) ;;
            tag <- slice "parseMoney:tag" (input s) p (p + xlen + 2) ;;
            let idx := index body tag in
            if idx =? -1 then
              t <- assign t b_sqli_token_type_string (p + xlen + 2) (slen s - p - xlen - 2) body ;;
              Ok (s, set_close (set_open t x24) x00, slen s)
            else
              t <- assign t b_sqli_token_type_string (p + xlen + 2) idx body ;;
              Ok (s, set_close (set_open t x24) x24, p + xlen + 2 + idx + xlen + 2)
    else
      is_dot <- (if length =? 1 then (c <- at_ "parseMoney" s (p + 1) ;; Ok (beq c x2e)) else Ok false) ;;
      if (is_dot : bool) then parse_word s t
      else
        rest <- input_from "parseMoney" s p ;;
        t <- assign t b_sqli_token_type_number p (length + 1) rest ;;
        Ok (s, t, p + length + 1).

(* s.input[pos]-'0' <= 9 on bytes (wrapping subtraction) *)
Definition is_digit (b : byte) : bool := (code b - 48) mod 256 <=? 9.

Definition parse_number : lexer := fun s t =>
  let p0 := pos s in
  c0 <- at_ "parseNumber" s p0 ;;
  digits <- (if beq c0 x30 && (p0 + 1 <? slen s) then
               (c1 <- at_ "parseNumber" s (p0 + 1) ;;
                Ok (if beq c1 x58 || beq c1 x78 then bs "0123456789ABCDEFabcdef"
                    else if beq c1 x42 || beq c1 x62 then bs "01" else []))
             else Ok []) ;;
  match digits with
  | _ :: _ =>
      rest2 <- input_from "parseNumber:input[pos+2:]" s (p0 + 2) ;;
      length <- str_len_spn rest2 (slen s - p0 - 2) digits ;;
      rest <- input_from "parseNumber" s p0 ;;
      if length =? 0 then
        t <- assign t b_sqli_token_type_bare_word p0 2 rest ;; Ok (s, t, p0 + 2)
      else
        t <- assign t b_sqli_token_type_number p0 (2 + length) rest ;; Ok (s, t, p0 + 2 + length)
  | [] =>
      let start := p0 in
      r <- input_from "parseNumber:digits" s p0 ;;
      let p := p0 + span is_digit r in
      (* optional fraction *)
      dot <- (if p <? slen s then (a <- at_ "parseNumber" s p ;; Ok (beq a x2e)) else Ok false) ;;
      frac <- (if (dot : bool) then
                 (r <- input_from "parseNumber:frac" s (p + 1) ;; Ok (p + 1 + span is_digit r))
               else Ok p) ;;
      if (dot : bool) && (frac - start =? 1) then
        t <- assign t b_sqli_token_type_dot start 1 (bs ".") ;; Ok (s, t, frac)
      else
        let p := frac in
        isE <- (if p <? slen s then (a <- at_ "parseNumber" s p ;; Ok (beq a x45 || beq a x65)) else Ok false) ;;
        '(p, have_exp) <-
          (if (isE : bool) then
             let p := p + 1 in
             sign <- (if p <? slen s then (a <- at_ "parseNumber" s p ;; Ok (beq a x2b || beq a x2d)) else Ok false) ;;
             let p := if (sign : bool) then p + 1 else p in
             r <- input_from "parseNumber:exp" s p ;;
             let n := span is_digit r in
             Ok (p + n, 0 <? n)
           else Ok (p, false)) ;;
        suffix <- (if p <? slen s then
                     (a <- at_ "parseNumber" s p ;;
                      Ok (beq a x64 || beq a x44 || beq a x66 || beq a x46))
                   else Ok false) ;;
        p <- (if (suffix : bool) then
                if p + 1 =? slen s then Ok (p + 1)
                else
                  (b <- at_ "parseNumber:suffix" s (p + 1) ;;
                   if is_byte_white b || beq b x3b then Ok (p + 1)
                   else if beq b x75 || beq b x55 then Ok (p + 1)
                   else Ok p)
              else Ok p) ;;
        rest <- input_from "parseNumber:input[start:]" s start ;;
        if (isE : bool) && negb have_exp then
          t <- assign t b_sqli_token_type_bare_word start (p - start) rest ;; Ok (s, t, p)
        else
          t <- assign t b_sqli_token_type_number start (p - start) rest ;; Ok (s, t, p)
  end.

Definition parse_ustring : lexer := fun s t =>
  let p := pos s in
  is_u <- (if p + 2 <? slen s then
             (a <- at_ "parseUString" s (p + 1) ;;
              if beq a x26 then (b <- at_ "parseUString" s (p + 2) ;; Ok (beq b b_byte_single)) else Ok false)
           else Ok false) ;;
  if (is_u : bool) then
    let s := set_pos s (p + 2) in
    '(s, t, np) <- parse_string s t ;;
    let t := set_open t x75 in
    let t := if beq (t_close t) b_byte_single then set_close t x75 else t in
    Ok (s, t, np)
  else parse_word s t.

Definition parse_estring : lexer := fun s t =>
  let p := pos s in
  not_e <- (if slen s <=? p + 2 then Ok true
            else (a <- at_ "parseEString" s (p + 1) ;; Ok (negb (beq a b_byte_single)))) ;;
  if (not_e : bool) then parse_word s t
  else
    '(t, np) <- parse_string_core t (input s) (slen s) p 2 b_byte_single ;;
    Ok (s, t, np).

(* sqli_data.go parseQStringCore *)
Definition parse_qstring_core (offset : Z) : lexer := fun s t =>
  let p := pos s + offset in
  as_word <- (if slen s <=? p then Ok true
              else
                (a <- at_ "parseQStringCore" s p ;;
                 if negb (beq a x71) && negb (beq a x51) then Ok true
                 else if slen s <=? p + 2 then Ok true
                 else (b <- at_ "parseQStringCore" s (p + 1) ;; Ok (negb (beq b b_byte_single))))) ;;
  if (as_word : bool) then parse_word s t
  else
    ch <- at_ "parseQStringCore:ch" s (p + 2) ;;
    if code ch <? 33 then parse_word s t
    else
      let ch := if beq ch x28 then x29 else if beq ch x5b then x5d
                else if beq ch x7b then x7d else if beq ch x3c then x3e else ch in
      body <- input_from "parseQStringCore:input[pos+3:]" s (p + 3) ;;
      let idx := index body [ch; b_byte_single] in
      if idx =? -1 then
        t <- assign t b_sqli_token_type_string (p + 3) (slen s - p - 3) body ;;
        Ok (s, set_close (set_open t x71) x00, slen s)
      else
        t <- assign t b_sqli_token_type_string (p + 3) idx body ;;
        Ok (s, set_close (set_open t x71) x71, p + 3 + idx + 2).

Definition parse_qstring : lexer := parse_qstring_core 0.

Definition parse_nqstring : lexer := fun s t =>
  let p := pos s in
  is_e <- (if p + 2 <? slen s then (a <- at_ "parseNqString" s (p + 1) ;; Ok (beq a b_byte_single))
           else Ok false) ;;
  if (is_e : bool) then parse_estring s t else parse_qstring_core 1 s t.

Definition parse_xb_string (digits : bytes) : lexer := fun s t =>
  let p := pos s in
  not_x <- (if slen s <=? p + 2 then Ok true
            else (a <- at_ "parseXString" s (p + 1) ;; Ok (negb (beq a b_byte_single)))) ;;
  if (not_x : bool) then parse_word s t
  else
    rest2 <- input_from "parseXString:input[pos+2:]" s (p + 2) ;;
    length <- str_len_spn rest2 (slen s - p - 2) digits ;;
    no_close <- (if slen s <=? p + 2 + length then Ok true
                 else (a <- at_ "parseXString" s (p + 2 + length) ;; Ok (negb (beq a b_byte_single)))) ;;
    if (no_close : bool) then parse_word s t
    else
      rest <- input_from "parseXString" s p ;;
      t <- assign t b_sqli_token_type_number p (length + 3) rest ;;
      Ok (s, t, p + 2 + length + 1).

Definition parse_xstring : lexer := parse_xb_string (bs "0123456789abcdefABCDEF").
Definition parse_bstring : lexer := parse_xb_string (bs "01").

Definition parse_bword : lexer := fun s t =>
  let p := pos s in
  rest <- input_from "parseBWord" s p ;;
  let e := index_byte rest x5d in
  if e =? -1 then
    t <- assign t b_sqli_token_type_bare_word p (slen s - p) rest ;; Ok (s, t, slen s)
  else
    t <- assign t b_sqli_token_type_bare_word p (e + 1) rest ;; Ok (s, t, p + e + 1).

Definition run_parser (id : parser_id) : lexer :=
  match id with
  | PWhite => parse_white | POperator1 => parse_operator1 | POperator2 => parse_operator2
  | PString => parse_string | PHash => parse_hash | PMoney => parse_money | PByte => parse_byte
  | PDash => parse_dash | PNumber => parse_number | PSlash => parse_slash | POther => parse_other
  | PVar => parse_var | PWord => parse_word | PBString => parse_bstring | PEString => parse_estring
  | PNqString => parse_nqstring | PQString => parse_qstring | PUString => parse_ustring
  | PXString => parse_xstring | PBWord => parse_bword | PBackSlash => parse_backslash
  | PTick => parse_tick
  end.

(* ---------- sqli.go tokenize ---------- *)

Definition bump_tokens (s : sqlst) : sqlst :=
  set_stats s (mkStats (n_ddx (st s)) (n_hash (st s)) (n_folds (st s)) (n_tokens (st s) + 1)).

(* the `for s.pos < s.length` loop of tokenize; the token passed on is s.current *)
Fixpoint tokenize_loop (fuel : nat) (s : sqlst) (t : token) : res (bool * token * sqlst) :=
  match fuel with
  | O => if pos s <? slen s then OutOfFuel else Ok (false, t, s)
  | S fuel' =>
      if pos s <? slen s then
        ch <- at_ "tokenize:input[pos]" s (pos s) ;;
        '(s, t, np) <- run_parser (dispatch ch) s t ;;
        let s := set_pos s np in
        if negb (beq (t_cat t) x00) then Ok (true, t, bump_tokens s)
        else tokenize_loop fuel' s t
      else Ok (false, t, s)
  end.

(* func (s *sqliState) tokenize() bool.  Returns (more, *s.current, state).
   `cur` is the previous content of the slot s.current points to: when the
   input is empty the slot is left untouched. *)
Definition tokenize (s : sqlst) (cur : token) : res (bool * token * sqlst) :=
  if slen s =? 0 then Ok (false, cur, s)
  else
    let t := tok0 in
    if (pos s =? 0)
       && negb (Z.land (flags s) (Z.lor c_sqli_flag_quote_single c_sqli_flag_quote_double) =? 0)
    then
      '(t, np) <- parse_string_core t (input s) (slen s) 0 0 (flag2delimiter (flags s)) ;;
      Ok (true, t, bump_tokens (set_pos s np))
    else tokenize_loop (S (List.length (input s))) s t.

(* sqliInit *)
Definition sqli_init (inp : bytes) (fl : Z) : sqlst :=
  let fl := if fl =? 0 then Z.lor c_sqli_flag_quote_none c_sqli_flag_sqlansi else fl in
  mkSt inp fl 0 stats0.

(* every token of a scan, with the scan offsets before/after each call *)
Fixpoint tokens_loop (fuel : nat) (s : sqlst) (acc : list (token * Z * Z))
  : res (list (token * Z * Z) * sqlst) :=
  match fuel with
  | O => OutOfFuel
  | S fuel' =>
      let before := pos s in
      '(more, t, s) <- tokenize s tok0 ;;
      if (more : bool) then tokens_loop fuel' s ((t, before, pos s) :: acc)
      else Ok (rev acc, s)
  end.

Definition tokens (inp : bytes) (fl : Z) : res (list (token * Z * Z) * sqlst) :=
  tokens_loop (S (S (List.length inp))) (sqli_init inp fl) [].
