(* Prelude: what the generated files need. Hand-written, definitions only. *)
From Coq Require Import List ZArith String.
From Coq.Strings Require Import Byte.
Import ListNotations.

Definition bs (s : string) : list byte := list_byte_of_string s.

(* One constructor per lexer function of sqli_parse.go / sqli_data.go that the
   byte dispatch table of buildByteParsers can select. *)
Inductive parser_id : Set :=
| PWhite | POperator1 | POperator2 | PString | PHash | PMoney | PByte | PDash
| PNumber | PSlash | POther | PVar | PWord | PBString | PEString | PNqString
| PQString | PUString | PXString | PBWord | PBackSlash | PTick.
