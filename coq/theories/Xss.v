(* Xss: Go-mirroring model of xss.go and xss_helpers.go.  Definitions only. *)
From Coq Require Import List ZArith String Bool.
From Coq.Strings Require Import Byte.
From LI Require Import Prelude Base Html5.
From LIGen Require Import Tables Consts.
Import ListNotations.
Local Open Scope Z_scope.
Local Open Scope res_scope.

Definition black_tags : list bytes := Eval vm_compute in black_tags_src.
Definition black_events : list (bytes * Z) := Eval vm_compute in black_events_src.
Definition blacks : list (bytes * Z) := Eval vm_compute in blacks_src.
Definition hex_decode_map : list Z := Eval vm_compute in hex_decode_map_src.
Definition url_schemes : list bytes := Eval vm_compute in url_schemes_src.

(* strings.ToUpper(strings.ReplaceAll(s, "\x00", "")) as an ASCII view *)
Definition upper_without_nulls (s : bytes) : option bytes := go_upper_view (remove_byte x00 s).

(* func isBlackTag(s string) bool *)
Definition is_black_tag (s : bytes) : bool :=
  if len s <? 3 then false
  else match upper_without_nulls s with
       | None => false
       | Some u => existsb (bytes_eqb u) black_tags || bytes_eqb u (bs "SVT") || bytes_eqb u (bs "XSL")
       end.

Fixpoint assoc_type (u : bytes) (l : list (bytes * Z)) : option Z :=
  match l with
  | [] => None
  | (k, v) :: l' => if bytes_eqb u k then Some v else assoc_type u l'
  end.

(* func isBlackAttr(s string) int *)
Definition is_black_attr (s : bytes) : Z :=
  match upper_without_nulls s with
  | None => c_attribute_type_none
      (* a non-ASCII result has >= 2 bytes and equals no list entry *)
  | Some u =>
      let length := len u in
      if length <? 2 then c_attribute_type_none
      else
        let ev :=
          if 5 <=? length then
            if bytes_eqb u (bs "XMLNS") || bytes_eqb u (bs "XLINK") then Some c_attribute_type_black
            else if bytes_eqb (firstn 2 u) (bs "ON") then assoc_type (skipn 2 u) black_events
            else None
          else None in
        match ev with
        | Some v => v
        | None => match assoc_type u blacks with Some v => v | None => c_attribute_type_none end
        end
  end.

(* gsHexDecodeMap[ch] *)
Definition hex_val (site : string) (ch : byte) : res Z :=
  match nth_error hex_decode_map (Z.to_nat (code ch)) with
  | Some v => Ok v
  | None => Panic site
  end.

(* the accumulation loops of htmlDecodeByteAt; i is the absolute index *)
Fixpoint decode_hex_loop (fuel : nat) (s : bytes) (i val : Z) : res (Z * Z) :=
  match fuel with
  | O => if i <? len s then OutOfFuel else Ok (val, i)
  | S fuel' =>
      if i <? len s then
        c <- get "htmlDecodeByteAt:s[i]" s i ;;
        if beq c x3b then Ok (val, i + 1)
        else
          d <- hex_val "htmlDecodeByteAt:gsHexDecodeMap" c ;;
          if d =? 256 then Ok (val, i)
          else
            let val := val * 16 + d in
            if 1048831 <? val then Ok (38, 1) else decode_hex_loop fuel' s (i + 1) val
      else Ok (val, i)
  end.

Fixpoint decode_dec_loop (fuel : nat) (s : bytes) (i val : Z) : res (Z * Z) :=
  match fuel with
  | O => if i <? len s then OutOfFuel else Ok (val, i)
  | S fuel' =>
      if i <? len s then
        c <- get "htmlDecodeByteAt:s[i]" s i ;;
        if beq c x3b then Ok (val, i + 1)
        else if (code c <? 48) || (57 <? code c) then Ok (val, i)
        else
          let val := val * 10 + (code c - 48) in
          if 1048831 <? val then Ok (38, 1) else decode_dec_loop fuel' s (i + 1) val
      else Ok (val, i)
  end.

(* func htmlDecodeByteAt(s string) (int, int) *)
Definition html_decode_byte_at (s : bytes) : res (Z * Z) :=
  let length := len s in
  if length =? 0 then Ok (c_byte_eof, 0)
  else
    c0 <- get "htmlDecodeByteAt:s[0]" s 0 ;;
    if negb (beq c0 x26) || (length <? 2) then Ok (code c0, 1)
    else
      c1 <- get "htmlDecodeByteAt:s[1]" s 1 ;;
      if negb (beq c1 x23) || (length <? 3) then Ok (38, 1)
      else
        c2 <- get "htmlDecodeByteAt:s[2]" s 2 ;;
        if beq c2 x78 || beq c2 x58 then
          if length <? 4 then Ok (38, 1)
          else
            c3 <- get "htmlDecodeByteAt:s[3]" s 3 ;;
            d <- hex_val "htmlDecodeByteAt:gsHexDecodeMap" c3 ;;
            if d =? 256 then Ok (38, 1)
            else decode_hex_loop (List.length s) s 4 d
        else
          if (code c2 <? 48) || (57 <? code c2) then Ok (38, 1)
          else decode_dec_loop (List.length s) s 3 (code c2 - 48).

(* the loop of htmlEncodeStartsWith; rest = b[pos:], acc = reversed bs *)
Fixpoint starts_with_loop (fuel : nat) (rest : bytes) (first : bool) (acc : bytes) : res bytes :=
  match fuel with
  | O => if 0 <? len rest then OutOfFuel else Ok (rev acc)
  | S fuel' =>
      if 0 <? len rest then
        '(cb, consumed) <- html_decode_byte_at rest ;;
        rest' <- drop "htmlEncodeStartsWith:b[pos:]" rest consumed ;;
        if first && (cb <=? 32) then starts_with_loop fuel' rest' true acc
        else if (cb =? 0) || (cb =? 10) then starts_with_loop fuel' rest' false acc
        else
          let cb := if (97 <=? cb) && (cb <=? 122) then cb - 32 else cb in
          starts_with_loop fuel' rest' false (byte_of_Z cb :: acc)
      else Ok (rev acc)
  end.

(* func htmlEncodeStartsWith(a, b string) bool *)
Definition html_encode_starts_with (a b : bytes) : res bool :=
  decoded <- starts_with_loop (S (List.length b)) b true [] ;;
  Ok (contains decoded a).

(* strings.TrimLeftFunc(s, r <= 32 || r >= 127) on runes: every byte >= 0x80 starts a rune
   >= 128 (valid or U+FFFD), and continuation bytes of a trimmed rune are >= 0x80 too, so
   the trim removes exactly the leading bytes <= 32 or >= 127. *)
Fixpoint trim_left_junk (s : bytes) : bytes :=
  match s with
  | b :: s' => if (code b <=? 32) || (127 <=? code b) then trim_left_junk s' else s
  | [] => []
  end.

Fixpoint any_scheme (urls : list bytes) (str : bytes) : res bool :=
  match urls with
  | [] => Ok false
  | u :: urls' =>
      r <- html_encode_starts_with u str ;;
      if (r : bool) then Ok true else any_scheme urls' str
  end.

(* func isBlackURL(s string) bool *)
Definition is_black_url (s : bytes) : res bool := any_scheme url_schemes (trim_left_junk s).

(* the body of the `for h5.next()` loop in isXSS: Some verdict = return *)
Definition classify (h : h5) (attr : Z) : res (option bool * Z) :=
  let attr := if negb (tok_type h =? c_html5_type_attr_value) then c_attribute_type_none else attr in
  start <- drop "isXSS:tokenStart" (hs h) (tok_off h) ;;
  let ty := tok_type h in
  if ty =? c_html5_type_doc_type then Ok (Some true, attr)
  else if ty =? c_html5_type_tag_name_open then
    v <- take "isXSS:tokenStart[:tokenLen]" start (tok_len h) ;;
    if is_black_tag v then Ok (Some true, attr) else Ok (None, attr)
  else if ty =? c_html5_type_attr_name then
    v <- take "isXSS:tokenStart[:tokenLen]" start (tok_len h) ;;
    Ok (None, is_black_attr v)
  else if ty =? c_html5_type_attr_value then
    if attr =? c_attribute_type_none then Ok (None, c_attribute_type_none)
    else if attr =? c_attribute_type_black then Ok (Some true, attr)
    else if attr =? c_attribute_type_attr_url then
      v <- take "isXSS:tokenStart[:tokenLen]" start (tok_len h) ;;
      u <- is_black_url v ;;
      if (u : bool) then Ok (Some true, attr) else Ok (None, c_attribute_type_none)
    else if attr =? c_attribute_type_style then Ok (Some true, attr)
    else if attr =? c_attribute_type_attr_indirect then
      v <- take "isXSS:tokenStart[:tokenLen]" start (tok_len h) ;;
      if is_black_attr v =? c_attribute_type_black then Ok (Some true, attr) else Ok (None, c_attribute_type_none)
    else Ok (None, c_attribute_type_none)
  else if ty =? c_html5_type_tag_comment then
    v <- take "isXSS:tokenStart[:tokenLen]" start (tok_len h) ;;
    if negb (index_byte v x60 =? -1) then Ok (Some true, attr)
    else
      r1 <- (if 3 <? tok_len h then
               (c0 <- get "isXSS:tokenStart[0]" start 0 ;;
                is_if <- (if beq c0 x5b then
                            (w <- slice "isXSS:tokenStart[1:3]" start 1 3 ;; Ok (to_upper_cmp (bs "IF") w))
                          else Ok false) ;;
                if (is_if : bool) then Ok true
                else (w <- slice "isXSS:tokenStart[0:3]" start 0 3 ;; Ok (to_upper_cmp (bs "XML") w)))
             else Ok false) ;;
      if (r1 : bool) then Ok (Some true, attr)
      else
        r2 <- (if 5 <? tok_len h then
                 (w <- take "isXSS:tokenStart[:6]" start 6 ;;
                  match upper_without_nulls w with
                  | Some u => Ok (bytes_eqb u (bs "IMPORT") || bytes_eqb u (bs "ENTITY"))
                  | None => Ok false
                  end)
               else Ok false) ;;
        if (r2 : bool) then Ok (Some true, attr) else Ok (None, attr)
  else Ok (None, attr).

Fixpoint xss_loop (fuel : nat) (h : h5) (attr : Z) : res bool :=
  match fuel with
  | O => OutOfFuel
  | S fuel' =>
      '(more, h) <- h5_next h ;;
      if (more : bool) then
        '(r, attr) <- classify h attr ;;
        match r with
        | Some b => Ok b
        | None => xss_loop fuel' h attr
        end
      else Ok false
  end.

(* func isXSS(input string, flags int) bool *)
Definition xss_ctx (s : bytes) (fl : Z) : res bool :=
  xss_loop (h5_fuel s) (h5_init s fl) c_attribute_type_none.

(* func IsXSS(input string) bool *)
Definition is_xss (s : bytes) : res bool :=
  a <- xss_ctx s c_html5_flags_data_state ;;
  if (a : bool) then Ok true else
  b <- xss_ctx s c_html5_flags_value_no_quote ;;
  if (b : bool) then Ok true else
  c <- xss_ctx s c_html5_flags_value_single_quote ;;
  if (c : bool) then Ok true else
  d <- xss_ctx s c_html5_flags_value_double_quote ;;
  if (d : bool) then Ok true else
  xss_ctx s c_html5_flags_value_back_quote.
