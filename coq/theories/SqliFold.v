(* SqliFold: Go-mirroring model of sqli.go — merge, fold, sqliFingerprint,
   blacklist, notWhitelist, check, IsSQLi.  Definitions only.

   The 8-slot tokenVec is modelled by the list `win` of exactly the `pos` live
   tokens; reading a slot >= pos is Panic in the model (Go would silently read
   a stale token), so the model is stricter than the code. *)
From Coq Require Import List ZArith String Bool.
From Coq.Strings Require Import Byte.
From LI Require Import Prelude Base SqliLex.
From LIGen Require Import Tables Dispatch Consts.
Import ListNotations.
Local Open Scope Z_scope.
Local Open Scope res_scope.

(* ---------- window primitives ---------- *)

Definition wget (site : string) (w : list token) (i : Z) : res token :=
  if 0 <=? i then
    match nth_error w (Z.to_nat i) with Some t => Ok t | None => Panic site end
  else Panic site.

Fixpoint replace_nth {A} (l : list A) (n : nat) (x : A) : list A :=
  match l, n with
  | [], _ => []
  | _ :: l', O => x :: l'
  | y :: l', S n' => y :: replace_nth l' n' x
  end.

Definition wset (site : string) (w : list token) (i : Z) (t : token) : res (list token) :=
  if (0 <=? i) && (i <? Z.of_nat (List.length w)) then Ok (replace_nth w (Z.to_nat i) t)
  else Panic site.

(* keep the first n tokens (pos := n); n must not exceed the live count *)
Definition wtrunc (site : string) (w : list token) (n : Z) : res (list token) :=
  if (0 <=? n) && (n <=? Z.of_nat (List.length w)) then Ok (firstn (Z.to_nat n) w)
  else Panic site.

Definition wlen (w : list token) : Z := Z.of_nat (List.length w).

Definition cat_is (t : token) (c : byte) : bool := beq (t_cat t) c.

Definition val_prefix (site : string) (t : token) : res bytes := take site (t_val t) (t_len t).

(* ---------- merge ---------- *)

Definition merge_left_ok (t : token) : bool :=
  cat_is t b_sqli_token_type_keyword || cat_is t b_sqli_token_type_bare_word
  || cat_is t b_sqli_token_type_operator || cat_is t b_sqli_token_type_union
  || cat_is t b_sqli_token_type_function || cat_is t b_sqli_token_type_expression
  || cat_is t b_sqli_token_type_tsql || cat_is t b_sqli_token_type_sqltype.

Definition merge_right_ok (t : token) : bool :=
  merge_left_ok t || cat_is t b_sqli_token_type_logic_operator.

(* func (s *sqliState) merge(tokenA, tokenB *sqliToken) bool: Some a' when merged *)
Definition merge (a b : token) : res (option token) :=
  if negb (merge_left_ok a) then Ok None
  else if negb (merge_right_ok b) then Ok None
  else if c_token_size <? t_len a + t_len b + 1 then Ok None
  else
    va <- val_prefix "merge:tokenA.val[:len]" a ;;
    vb <- val_prefix "merge:tokenB.val[:len]" b ;;
    let tmp := va ++ [x20] ++ vb in
    let ch := search_keyword tmp in
    if negb (beq ch x00) then
      a' <- assign a ch (t_pos a) (len tmp) tmp ;; Ok (Some a')
    else Ok None.

(* ---------- fold ---------- *)

Record fstate := mkF {
  f_s : sqlst;
  f_win : list token;      (* tokenVec[0 .. pos) ; pos = length *)
  f_left : Z;
  f_more : bool;
  f_last : token           (* lastComment *)
}.

Definition bump_folds (s : sqlst) (n : Z) : sqlst :=
  set_stats s (mkStats (n_ddx (st s)) (n_hash (st s)) (n_folds (st s) + n) (n_tokens (st s))).

(* the two token-fetch loops:
     for more && pos <= maxTokens && pos-left < want { current = &tokenVec[pos]; more = tokenize(); ... } *)
Fixpoint fetch (fuel : nat) (want : Z) (f : fstate) : res fstate :=
  match fuel with
  | O => OutOfFuel
  | S fuel' =>
      let p := wlen (f_win f) in
      if f_more f && (p <=? c_max_tokens) && (p - f_left f <? want) then
        '(more, t, s) <- tokenize (f_s f) tok0 ;;
        if (more : bool) then
          if cat_is t b_sqli_token_type_comment
          then fetch fuel' want (mkF s (f_win f) (f_left f) true t)
          else fetch fuel' want
                 (mkF s (f_win f ++ [t]) (f_left f) true (set_cat (f_last f) x00))
        else fetch fuel' want (mkF s (f_win f) (f_left f) false (f_last f))
      else Ok f
  end.

Definition fetch_n (want : Z) (f : fstate) : res fstate :=
  fetch (S (S (List.length (input (f_s f))))) want f.

Definition cat_in (t : token) (cs : list byte) : bool := existsb (cat_is t) cs.

(* the 5-token special cases at the head of the loop *)
Definition five_special (w : list token) : res bool :=
  t0 <- wget "fold:tokenVec[0]" w 0 ;; t1 <- wget "fold:tokenVec[1]" w 1 ;;
  t2 <- wget "fold:tokenVec[2]" w 2 ;; t3 <- wget "fold:tokenVec[3]" w 3 ;;
  t4 <- wget "fold:tokenVec[4]" w 4 ;;
  let N := b_sqli_token_type_number in let O := b_sqli_token_type_operator in
  let C := b_sqli_token_type_comma in let L := b_sqli_token_type_left_parenthesis in
  let R := b_sqli_token_type_right_parenthesis in let W := b_sqli_token_type_bare_word in
  Ok ((cat_is t0 N && (cat_is t1 O || cat_is t1 C) && cat_is t2 L && cat_is t3 N && cat_is t4 R)
      || (cat_is t0 W && cat_is t1 O && cat_is t2 L && (cat_is t3 W || cat_is t3 N) && cat_is t4 R)
      || (cat_is t0 N && cat_is t1 R && cat_is t2 C && cat_is t3 L && cat_is t4 N)
      || (cat_is t0 W && cat_is t1 R && cat_is t2 O && cat_is t3 L && cat_is t4 W)).

(* outcome of one pass over the rule cascade *)
Inductive step_out :=
| Continue (f : fstate)          (* `continue` (or fall out of the bottom with left++) *)
| Return (n : Z) (f : fstate).   (* `return left + 2` *)

Definition upd (f : fstate) (s : sqlst) (w : list token) (l : Z) : fstate :=
  mkF s w l (f_more f) (f_last f).

Definition name_is_function_like (v : bytes) : bool :=
  to_upper_cmp (bs "USER_ID") v || to_upper_cmp (bs "USER_NAME") v
  || to_upper_cmp (bs "DATABASE") v || to_upper_cmp (bs "PASSWORD") v
  || to_upper_cmp (bs "USER") v || to_upper_cmp (bs "CURRENT_USER") v
  || to_upper_cmp (bs "CURRENT_DATE") v || to_upper_cmp (bs "CURRENT_TIME") v
  || to_upper_cmp (bs "CURRENT_TIMESTAMP") v || to_upper_cmp (bs "LOCALTIME") v
  || to_upper_cmp (bs "LOCALTIMESTAMP") v.

(* three-token rules; reached with pos-left >= 3 *)
Definition rules3 (f : fstate) : res step_out :=
  let w := f_win f in let l := f_left f in let s := f_s f in let p := wlen w in
  a <- wget "fold:tokenVec[left]" w l ;;
  b <- wget "fold:tokenVec[left+1]" w (l + 1) ;;
  c <- wget "fold:tokenVec[left+2]" w (l + 2) ;;
  let N := b_sqli_token_type_number in let O := b_sqli_token_type_operator in
  let W := b_sqli_token_type_bare_word in let V := b_sqli_token_type_variable in
  let S_ := b_sqli_token_type_string in let LP := b_sqli_token_type_left_parenthesis in
  let drop2 := (w' <- wtrunc "fold:pos-=2" w (p - 2) ;; Ok (Continue (upd f s w' 0))) in
  let shift1 := (w' <- wset "fold:tokenVec[left+1]=tokenVec[left+2]" w (l + 1) c ;;
                 w' <- wtrunc "fold:pos--" w' (p - 1) ;; Ok (Continue (upd f s w' 0))) in
  if cat_is a N && cat_is b O && cat_is c N then drop2
  else if cat_is a O && negb (cat_is b LP) && cat_is c O then drop2
  else if cat_is a b_sqli_token_type_logic_operator && cat_is c b_sqli_token_type_logic_operator then drop2
  else if cat_is a V && cat_is b O && (cat_is c V || cat_is c N || cat_is c W) then drop2
  else if (cat_is a W || cat_is a N) && cat_is b O && (cat_is c N || cat_is c W) then drop2
  else
  g6 <- (if (cat_is a W || cat_is a N || cat_is a V || cat_is a S_) && cat_is b O then
           (v <- val_prefix "fold:tokenVec[left+1].val[:len]" b ;;
            Ok (bytes_eqb v (bs "::") && cat_is c b_sqli_token_type_sqltype))
         else Ok false) ;;
  if (g6 : bool) then
    w' <- wtrunc "fold:pos-=2" w (p - 2) ;; Ok (Continue (upd f (bump_folds s 2) w' 0))
  else if (cat_is a W || cat_is a N || cat_is a S_ || cat_is a V) && cat_is b b_sqli_token_type_comma
          && (cat_is c N || cat_is c W || cat_is c S_ || cat_is c V) then drop2
  else
  ub <- is_unary_op b ;;
  if (cat_is a b_sqli_token_type_expression || cat_is a b_sqli_token_type_group
      || cat_is a b_sqli_token_type_comma) && ub && cat_is c LP then shift1
  else if (cat_is a b_sqli_token_type_keyword || cat_is a b_sqli_token_type_expression
           || cat_is a b_sqli_token_type_group) && ub
          && (cat_is c N || cat_is c W || cat_is c V || cat_is c S_ || cat_is c b_sqli_token_type_function)
  then shift1
  else if cat_is a b_sqli_token_type_comma && ub && (cat_is c N || cat_is c W || cat_is c V || cat_is c S_)
  then
    w' <- wset "fold:tokenVec[left+1]=tokenVec[left+2]" w (l + 1) c ;;
    w' <- wtrunc "fold:pos-=3" w' (p - 3) ;; Ok (Continue (upd f s w' 0))
  else if cat_is a b_sqli_token_type_comma && ub && cat_is c b_sqli_token_type_function then shift1
  else if cat_is a W && cat_is b b_sqli_token_type_dot && cat_is c W then drop2
  else if cat_is a b_sqli_token_type_expression && cat_is b b_sqli_token_type_dot && cat_is c W then shift1
  else if cat_is a b_sqli_token_type_function && cat_is b LP
          && negb (cat_is c b_sqli_token_type_right_parenthesis) then
    v <- val_prefix "fold:tokenVec[left].val[:len]" a ;;
    w' <- (if to_upper_cmp (bs "USER") v
           then wset "fold:tokenVec[left].category" w l (set_cat a W) else Ok w) ;;
    Ok (Continue (upd f s w' (l + 1)))
  else Ok (Continue (upd f s w (l + 1))).

(* two-token rules; reached with pos-left >= 2.  Falls through to rules3. *)
Definition rules2 (fetch3 : fstate -> res fstate) (f : fstate) : res step_out :=
  let w := f_win f in let l := f_left f in let s := f_s f in let p := wlen w in
  a <- wget "fold:tokenVec[left]" w l ;;
  b <- wget "fold:tokenVec[left+1]" w (l + 1) ;;
  let S_ := b_sqli_token_type_string in let O := b_sqli_token_type_operator in
  let W := b_sqli_token_type_bare_word in let LP := b_sqli_token_type_left_parenthesis in
  let RP := b_sqli_token_type_right_parenthesis in let T := b_sqli_token_type_sqltype in
  let SC := b_sqli_token_type_semi_colon in let FN := b_sqli_token_type_function in
  let K := b_sqli_token_type_keyword in
  let pop (left' : Z) := (w' <- wtrunc "fold:pos--" w (p - 1) ;;
                          Ok (Continue (upd f (bump_folds s 1) w' left'))) in
  let dec_left := if 0 <? l then l - 1 else l in
  (* after the 2-token switch falls through: fetch a third token, then rules3 *)
  let three (f : fstate) :=
    (f <- fetch3 f ;;
     if wlen (f_win f) - f_left f <? 3
     then Ok (Continue (mkF (f_s f) (f_win f) (wlen (f_win f)) (f_more f) (f_last f)))
     else rules3 f) in
  if cat_is a S_ && cat_is b S_ then pop l
  else if cat_is a SC && cat_is b SC then pop l
  else
  ub <- (if cat_is a O || cat_is a b_sqli_token_type_logic_operator
         then (u <- is_unary_op b ;; Ok (u || cat_is b T)) else Ok false) ;;
  if (ub : bool) then pop 0
  else
  lu <- (if cat_is a LP then is_unary_op b else Ok false) ;;
  if (lu : bool) then pop dec_left
  else
  m <- merge a b ;;
  match m with
  | Some a' =>
      w' <- wset "fold:merge" w l a' ;;
      w' <- wtrunc "fold:pos--" w' (p - 1) ;;
      Ok (Continue (upd f (bump_folds s 1) w' dec_left))
  | None =>
  is_if <- (if cat_is a SC && cat_is b FN then
              (c0 <- get "fold:val[0]" (t_val b) 0 ;;
               if beq c0 x49 || beq c0 x69 then
                 (c1 <- get "fold:val[1]" (t_val b) 1 ;; Ok (beq c1 x46 || beq c1 x66))
               else Ok false)
            else Ok false) ;;
  if (is_if : bool) then
    w' <- wset "fold:IF" w (l + 1) (set_cat b b_sqli_token_type_tsql) ;;
    Ok (Continue (upd f s w' l))
  else
  fnlike <- (if (cat_is a W || cat_is a b_sqli_token_type_variable) && cat_is b LP then
               (v <- val_prefix "fold:tokenVec[left].val[:len]" a ;; Ok (name_is_function_like v))
             else Ok false) ;;
  if (fnlike : bool) then
    w' <- wset "fold:function" w l (set_cat a FN) ;; Ok (Continue (upd f s w' l))
  else
  is_in <- (if cat_is a K then
              (v <- val_prefix "fold:tokenVec[left].val[:len]" a ;;
               Ok (to_upper_cmp (bs "IN") v || to_upper_cmp (bs "NOT IN") v))
            else Ok false) ;;
  if (is_in : bool) then
    w' <- wset "fold:IN" w l (set_cat a (if cat_is b LP then O else W)) ;;
    Ok (Continue (upd f s w' l))
  else
  is_like <- (if cat_is a O then
                (v <- val_prefix "fold:tokenVec[left].val[:len]" a ;;
                 Ok (to_upper_cmp (bs "LIKE") v || to_upper_cmp (bs "NOT LIKE") v))
              else Ok false) ;;
  if (is_like : bool) then
    (* no continue: falls out of the switch *)
    w' <- (if cat_is b LP then wset "fold:LIKE" w l (set_cat a FN) else Ok w) ;;
    three (upd f s w' l)
  else if cat_is a T && (cat_is b W || cat_is b b_sqli_token_type_number || cat_is b T || cat_is b LP
                         || cat_is b FN || cat_is b b_sqli_token_type_variable || cat_is b S_) then
    w' <- wset "fold:tokenVec[left]=tokenVec[left+1]" w l b ;;
    w' <- wtrunc "fold:pos--" w' (p - 1) ;;
    Ok (Continue (upd f (bump_folds s 1) w' 0))
  else if cat_is a b_sqli_token_type_collate && cat_is b W then
    if negb (index_byte (t_val b) x5f =? -1) then
      w' <- wset "fold:collate" w (l + 1) (set_cat b T) ;;
      three (upd f s w' 0)
    else three f
  else if cat_is a b_sqli_token_type_backslash then
    ar <- is_arithmetic_op b ;;
    if (ar : bool) then
      w' <- wset "fold:backslash" w l (set_cat a b_sqli_token_type_number) ;;
      Ok (Continue (upd f s w' 0))
    else
      w' <- wset "fold:tokenVec[left]=tokenVec[left+1]" w l b ;;
      w' <- wtrunc "fold:pos--" w' (p - 1) ;;
      Ok (Continue (upd f (bump_folds s 1) w' 0))
  else if cat_is a LP && cat_is b LP then pop 0
  else if cat_is a RP && cat_is b RP then pop 0
  else if cat_is a b_sqli_token_type_left_brace && cat_is b W then
    if t_len b =? 0 then
      w' <- wset "fold:evil" w (l + 1) (set_cat b b_sqli_token_type_evil) ;;
      Ok (Return (l + 2) (upd f s w' l))
    else
      w' <- wtrunc "fold:pos-=2" w (p - 2) ;;
      Ok (Continue (upd f (bump_folds s 2) w' 0))
  else if cat_is b b_sqli_token_type_right_brace then pop 0
  else three f
  end.

(* one iteration of the main `for` loop *)
Inductive iter_out :=
| Again (f : fstate)
| Break (f : fstate)           (* `left = pos; break` *)
| Ret (n : Z) (f : fstate).

Definition fold_iter (f : fstate) : res iter_out :=
  let p := wlen (f_win f) in
  (* 5-token special cases *)
  f <- (if c_max_tokens <=? p then
          (sp <- five_special (f_win f) ;;
           if (sp : bool) then
             if c_max_tokens <? p then
               (t5 <- wget "fold:tokenVec[5]" (f_win f) 5 ;;
                w' <- wset "fold:tokenVec[1]=tokenVec[5]" (f_win f) 1 t5 ;;
                w' <- wtrunc "fold:pos=2" w' 2 ;;
                Ok (mkF (f_s f) w' 0 (f_more f) (f_last f)))
             else
               (w' <- wtrunc "fold:pos=1" (f_win f) 1 ;;
                Ok (mkF (f_s f) w' 0 (f_more f) (f_last f)))
           else Ok f)
        else Ok f) ;;
  if negb (f_more f) || (c_max_tokens <=? f_left f) then
    Ok (Break (mkF (f_s f) (f_win f) (wlen (f_win f)) (f_more f) (f_last f)))
  else
    f <- fetch_n 2 f ;;
    if wlen (f_win f) - f_left f <? 2 then
      Ok (Again (mkF (f_s f) (f_win f) (wlen (f_win f)) (f_more f) (f_last f)))
    else
      r <- rules2 (fetch_n 3) f ;;
      match r with
      | Continue f => Ok (Again f)
      | Return n f => Ok (Ret n f)
      end.

(* what happens after the loop: tokenVec[left] = lastComment, cap at maxTokens *)
Definition fold_finish (f : fstate) : res (Z * fstate) :=
  let l := f_left f in
  '(w, l) <- (if (l <? c_max_tokens) && cat_is (f_last f) b_sqli_token_type_comment then
                (* tokenVec[left] = lastComment with left = pos: append *)
                if l =? wlen (f_win f) then Ok (f_win f ++ [f_last f], l + 1)
                else (w' <- wset "fold:tokenVec[left]=lastComment" (f_win f) l (f_last f) ;;
                      Ok (w', l + 1))
              else Ok (f_win f, l)) ;;
  let l := if c_max_tokens <? l then c_max_tokens else l in
  Ok (l, mkF (f_s f) w l (f_more f) (f_last f)).

(* at most k iterations of the main loop: inl = still running *)
Fixpoint fold_steps (k : nat) (f : fstate) : res (fstate + Z * fstate) :=
  match k with
  | O => Ok (inl f)
  | S k' =>
      r <- fold_iter f ;;
      match r with
      | Again f => fold_steps k' f
      | Ret n f => Ok (inr (n, f))
      | Break f => (x <- fold_finish f ;; Ok (inr x))
      end
  end.

Definition fold_chunk : nat := 256.

(* the main loop; the fuel counts chunks of fold_chunk iterations, so that a
   fuel linear in the input length covers the (linear, with a larger constant)
   number of iterations without building a large unary number *)
Fixpoint fold_loop (fuel : nat) (f : fstate) : res (Z * fstate) :=
  match fuel with
  | O => OutOfFuel
  | S fuel' =>
      r <- fold_steps fold_chunk f ;;
      match r with
      | inl f => fold_loop fuel' f
      | inr x => Ok x
      end
  end.

(* the initial skip loop: for more { more = tokenize(); if !(comment | ( | sqltype | unary) break } *)
Fixpoint skip_loop (fuel : nat) (s : sqlst) (cur : token) : res (bool * token * sqlst) :=
  match fuel with
  | O => OutOfFuel
  | S fuel' =>
      '(more, t, s) <- tokenize s cur ;;
      u <- is_unary_op t ;;
      if negb (cat_is t b_sqli_token_type_comment || cat_is t b_sqli_token_type_left_parenthesis
               || cat_is t b_sqli_token_type_sqltype || u)
      then Ok (more, t, s)
      else if (more : bool) then skip_loop fuel' s t else Ok (more, t, s)
  end.

Definition fold_fuel (s : sqlst) : nat := S (S (S (List.length (input s)))).

(* func (s *sqliState) fold() int : (returned count, tokenVec[0..count), state) *)
Definition fold (s : sqlst) : res (list token * sqlst) :=
  '(more, t, s) <- skip_loop (S (S (List.length (input s)))) s tok0 ;;
  if negb more then Ok ([], s)
  else
    '(n, f) <- fold_loop (fold_fuel s) (mkF s [t] 0 true tok0) ;;
    w <- wtrunc "fold:return" (f_win f) n ;;
    Ok (w, f_s f).

(* ---------- fingerprint ---------- *)

Definition reset (s : sqlst) (fl : Z) : sqlst := sqli_init (input s) fl.

Fixpoint fp_loop (w : list token) (acc : bytes) : option bytes :=   (* None: saw 'X' *)
  match w with
  | [] => Some (rev acc)
  | t :: w' => if cat_is t b_sqli_token_type_evil then None else fp_loop w' (t_cat t :: acc)
  end.

(* func (s *sqliState) sqliFingerprint(flags int) string : (fingerprint, tokenVec, state) *)
Definition sqli_fingerprint (s : sqlst) (fl : Z) : res (bytes * list token * sqlst) :=
  let s := reset s fl in
  '(w, s) <- fold s ;;
  let n := wlen w in
  w <- (if 2 <? n then
          (lt <- wget "sqliFingerprint:tokenVec[length-1]" w (n - 1) ;;
           if cat_is lt b_sqli_token_type_bare_word && beq (t_open lt) b_byte_tick
              && (t_len lt =? 0) && beq (t_close lt) x00
           then wset "sqliFingerprint" w (n - 1) (set_cat lt b_sqli_token_type_comment)
           else Ok w)
        else Ok w) ;;
  match fp_loop w [] with
  | Some fp => Ok (fp, w, s)
  | None =>
      (* tokenVec[0].category = 'X'; tokenVec[0].val = "X" *)
      t0 <- wget "sqliFingerprint:tokenVec[0]" w 0 ;;
      let t0 := mkTok (t_pos t0) (t_len t0) (t_count t0) b_sqli_token_type_evil (t_open t0) (t_close t0)
                      [b_sqli_token_type_evil] in
      w <- wset "sqliFingerprint:tokenVec[0]" w 0 t0 ;;
      Ok ([b_sqli_token_type_evil], w, s)
  end.

(* func (s *sqliState) blacklist() bool *)
Definition blacklist (fp : bytes) : bool :=
  if len fp <? 1 then false
  else
    let up := map (fun ch => if (97 <=? code ch) && (code ch <=? 122) then byte_of_Z (code ch - 32) else ch) fp in
    beq (search_keyword (x30 :: up)) b_sqli_token_type_fingerprint.

(* func (s *sqliState) notWhitelist() bool *)
Definition not_whitelist (s : sqlst) (fp : bytes) (w : list token) : res bool :=
  let length := len fp in
  early <- (if 1 <? length then
              (lc <- get "notWhitelist:fingerprint[length-1]" fp (length - 1) ;;
               Ok (beq lc b_sqli_token_type_comment && contains (input s) (bs "sp_password")))
            else Ok false) ;;
  if (early : bool) then Ok true
  else if length =? 2 then
    f1 <- get "notWhitelist:fingerprint[1]" fp 1 ;;
    if beq f1 b_sqli_token_type_union then Ok (negb (n_tokens (st s) =? 2))
    else
      t1 <- wget "notWhitelist:tokenVec[1]" w 1 ;;
      v0 <- get "notWhitelist:tokenVec[1].val[0]" (t_val t1) 0 ;;
      if beq v0 x23 then Ok false
      else
        t0 <- wget "notWhitelist:tokenVec[0]" w 0 ;;
        if cat_is t0 b_sqli_token_type_bare_word && cat_is t1 b_sqli_token_type_comment
           && negb (beq v0 x2f) then Ok false
        else if cat_is t0 b_sqli_token_type_number && cat_is t1 b_sqli_token_type_comment
                && beq v0 x2f then Ok true
        else if cat_is t0 b_sqli_token_type_number && cat_is t1 b_sqli_token_type_comment then
          if 2 <? n_tokens (st s) then Ok true
          else
            ch <- get "notWhitelist:input[tokenVec[0].len]" (input s) (t_len t0) ;;
            if (code ch <=? 32) || is_byte_white ch then Ok true
            else
              sl <- (if beq ch x2f then
                       (c <- get "notWhitelist:input[tokenVec[0].len+1]" (input s) (t_len t0 + 1) ;;
                        Ok (beq c x2a))
                     else Ok false) ;;
              if (sl : bool) then Ok true
              else
                dd <- (if beq ch x2d then
                         (c <- get "notWhitelist:input[tokenVec[0].len+1]" (input s) (t_len t0 + 1) ;;
                          Ok (beq c x2d))
                       else Ok false) ;;
                Ok dd
        else if (2 <? t_len t1) && beq v0 x2d then Ok false
        else Ok true
  else if length =? 3 then
    if bytes_eqb fp (bs "sos") || bytes_eqb fp (bs "s&s") then
      t0 <- wget "notWhitelist:tokenVec[0]" w 0 ;;
      t2 <- wget "notWhitelist:tokenVec[2]" w 2 ;;
      Ok (beq (t_open t0) x00 && beq (t_close t2) x00 && beq (t_close t0) (t_open t2))
    else
      let listed := bytes_eqb fp (bs "s&n") || bytes_eqb fp (bs "n&1") || bytes_eqb fp (bs "1&1")
                    || bytes_eqb fp (bs "1&v") || bytes_eqb fp (bs "1&s") in
      if listed && (n_tokens (st s) =? 3) then Ok false
      else
        t1 <- wget "notWhitelist:tokenVec[1]" w 1 ;;
        safe <- (if cat_is t1 b_sqli_token_type_keyword then
                   if t_len t1 <? 5 then Ok true
                   else (v <- take "notWhitelist:tokenVec[1].val[:4]" (t_val t1) 4 ;;
                         Ok (negb (to_upper_cmp (bs "INTO") v)))
                 else Ok false) ;;
        Ok (negb safe)
  else Ok true.

Definition check_fingerprint (s : sqlst) (fp : bytes) (w : list token) : res bool :=
  if blacklist fp then not_whitelist s fp w else Ok false.

Definition reparse_as_mysql (s : sqlst) : bool :=
  negb (n_ddx (st s) =? 0) || negb (n_hash (st s) =? 0).

(* func (s *sqliState) check() bool, returning also the fingerprint left in the state *)
Definition check (s : sqlst) : res (bool * bytes) :=
  if slen s =? 0 then Ok (false, [])
  else
    let try (s : sqlst) (fl : Z) (k : sqlst -> res (bool * bytes)) : res (bool * bytes) :=
      ('(fp, w, s) <- sqli_fingerprint s fl ;;
       v <- check_fingerprint s fp w ;;
       if (v : bool) then Ok (true, fp) else k s) in
    let fin (fp : bytes) := Ok (false, fp) in
    let dbl (s : sqlst) :=
      if negb (index_byte (input s) b_byte_double =? -1) then
        try s (Z.lor c_sqli_flag_quote_double c_sqli_flag_sqlmysql) (fun _ => Ok (false, []))
      else Ok (false, []) in
    let sgl (s : sqlst) :=
      if negb (index_byte (input s) b_byte_single =? -1) then
        try s (Z.lor c_sqli_flag_quote_single c_sqli_flag_sqlansi)
          (fun s => if reparse_as_mysql s
                    then try s (Z.lor c_sqli_flag_quote_single c_sqli_flag_sqlmysql) dbl
                    else dbl s)
      else dbl s in
    try s (Z.lor c_sqli_flag_quote_none c_sqli_flag_sqlansi)
      (fun s => if reparse_as_mysql s
                then try s (Z.lor c_sqli_flag_quote_none c_sqli_flag_sqlmysql) sgl
                else sgl s).

(* func IsSQLi(input string) (bool, string) *)
Definition is_sqli (inp : bytes) : res (bool * bytes) :=
  '(b, fp) <- check (sqli_init inp 0) ;;
  if (b : bool) then Ok (true, fp) else Ok (false, []).

(* ---------- accessors matching the verif hooks ---------- *)

Definition fold_tokens (inp : bytes) (fl : Z) : res (list token * sqlst) :=
  fold (sqli_init inp fl).

(* VerifFingerprint: fresh state, (fingerprint, blacklisted, verdict, stats) *)
Definition fingerprint_ctx (inp : bytes) (fl : Z) : res (bytes * bool * bool * stats) :=
  '(fp, w, s) <- sqli_fingerprint (sqli_init inp 0) fl ;;
  v <- check_fingerprint s fp w ;;
  Ok (fp, blacklist fp, v, st s).
