(* CostXss: the cost-instrumented twin of Xss.v (the XSS classifier).

   Same conventions as CostHtml5.v.  Additional conventions of this file:
     - strings.ReplaceAll / strings.ToUpper are whole-string passes (`c_linear`);
     - a string comparison `u == k` is charged `len u + 1` (`c_linear u`);
     - the look-ups in the fixed lists (black tags, black events, black
       attributes) are hash-free linear scans: one tick plus one comparison per
       entry actually compared;
     - gsHexDecodeMap[ch] is one index expression;
     - a call of htmlDecodeByteAt is one tick (like a state function of the tokenizer);
     - TrimLeftFunc is one tick per byte examined;
     - boolean `||` chains are evaluated left to right with short-circuit, as in Go;
     - when the upper-cased name is not representable (`go_upper_view` = None: the name
       has a byte >= 0x80 outside the two folding runes) the Go code still compares it
       with every entry of the lists; no entry can match, and the scans are charged like
       the scans of an ASCII name that matches nothing (`c_scan_nomatch`), with the
       length of the NUL-stripped name standing for the length of the upper-cased one.
   Definitions only. *)
From Coq Require Import List ZArith String Bool.
From Coq.Strings Require Import Byte.
From LI Require Import Prelude Base Html5 Xss Cost.CostBase Cost.CostHtml5.
From LIGen Require Import Tables Consts.
Import ListNotations.
Local Open Scope Z_scope.
Local Open Scope cost_scope.

(* strings.ToUpper(strings.ReplaceAll(s, "\x00", "")): two passes *)
Definition c_upper_without_nulls (s : bytes) : cres (option bytes) :=
  r <-- c_linear s (remove_byte x00 s) ;;
  c_linear r (go_upper_view r).

(* `existsb (bytes_eqb u) l` as a linear list scan *)
Fixpoint c_existsb_eq (u : bytes) (l : list bytes) : cres bool :=
  match l with
  | [] => cret false
  | k :: l' =>
      _ <-- tick 1 ;;
      b <-- c_linear u (bytes_eqb u k) ;;
      if (b : bool) then cret true else c_existsb_eq u l'
  end.

(* a linear list scan in which no entry matches a key of length n: one tick plus one
   comparison (n + 1) per entry *)
Fixpoint c_scan_nomatch {A} (n : Z) (l : list A) : cres unit :=
  match l with
  | [] => cret tt
  | _ :: l' =>
      _ <-- tick 1 ;;
      _ <-- tick (n + 1) ;;
      c_scan_nomatch n l'
  end.

Definition c_is_black_tag (s : bytes) : cres bool :=
  if len s <? 3 then cret false
  else
    ou <-- c_upper_without_nulls s ;;
    match ou with
    | None =>
        (* the scan of blackTags, then the cases "SVT" and "XSL"; nothing matches *)
        let r := remove_byte x00 s in
        _ <-- c_scan_nomatch (len r) black_tags ;;
        _ <-- c_linear r false ;;
        c_linear r false
    | Some u =>
        b1 <-- c_existsb_eq u black_tags ;;
        if (b1 : bool) then cret true
        else
          b2 <-- c_linear u (bytes_eqb u (bs "SVT")) ;;
          if (b2 : bool) then cret true
          else c_linear u (bytes_eqb u (bs "XSL"))
    end.

Fixpoint c_assoc_type (u : bytes) (l : list (bytes * Z)) : cres (option Z) :=
  match l with
  | [] => cret None
  | (k, v) :: l' =>
      _ <-- tick 1 ;;
      b <-- c_linear u (bytes_eqb u k) ;;
      if (b : bool) then cret (Some v) else c_assoc_type u l'
  end.

Definition c_is_black_attr (s : bytes) : cres Z :=
  ou <-- c_upper_without_nulls s ;;
  match ou with
  | None =>
      (* the upper-cased name has a rune outside ASCII, hence at least 2 bytes: the
         length test does not return.  "XMLNS", "XLINK" and the "ON" prefix test are
         charged whatever the length is; the scan of blackEvents when the first two bytes
         upper-case to "ON"; then the scan of blacks.  Nothing matches. *)
      let r := remove_byte x00 s in
      _ <-- c_linear r false ;;
      _ <-- c_linear r false ;;
      b3 <-- c_linear (firstn 2 r) (to_upper_cmp (bs "ON") (firstn 2 r)) ;;
      _ <-- (if (b3 : bool) then c_scan_nomatch (len r) black_events else cret tt) ;;
      _ <-- c_scan_nomatch (len r) blacks ;;
      cret c_attribute_type_none
  | Some u =>
      let length := len u in
      if length <? 2 then cret c_attribute_type_none
      else
        ev <-- (if 5 <=? length then
                  b1 <-- c_linear u (bytes_eqb u (bs "XMLNS")) ;;
                  b2 <-- (if (b1 : bool) then cret true else c_linear u (bytes_eqb u (bs "XLINK"))) ;;
                  if (b2 : bool) then cret (Some c_attribute_type_black)
                  else
                    b3 <-- c_linear (firstn 2 u) (bytes_eqb (firstn 2 u) (bs "ON")) ;;
                    if (b3 : bool) then c_assoc_type (skipn 2 u) black_events
                    else cret None
                else cret None) ;;
        match ev with
        | Some v => cret v
        | None =>
            r <-- c_assoc_type u blacks ;;
            match r with Some v => cret v | None => cret c_attribute_type_none end
        end
  end.

Definition c_hex_val (site : string) (ch : byte) : cres Z := charge 1 (hex_val site ch).

Fixpoint c_decode_hex_loop (fuel : nat) (s : bytes) (i val : Z) : cres (Z * Z) :=
  match fuel with
  | O => if i <? len s then OutOfFuel else cret (val, i)
  | S fuel' =>
      _ <-- tick 1 ;;
      if i <? len s then
        c <-- c_get "htmlDecodeByteAt:s[i]" s i ;;
        if beq c x3b then cret (val, i + 1)
        else
          d <-- c_hex_val "htmlDecodeByteAt:gsHexDecodeMap" c ;;
          if d =? 256 then cret (val, i)
          else
            let val := val * 16 + d in
            if 1048831 <? val then cret (38, 1) else c_decode_hex_loop fuel' s (i + 1) val
      else cret (val, i)
  end.

Fixpoint c_decode_dec_loop (fuel : nat) (s : bytes) (i val : Z) : cres (Z * Z) :=
  match fuel with
  | O => if i <? len s then OutOfFuel else cret (val, i)
  | S fuel' =>
      _ <-- tick 1 ;;
      if i <? len s then
        c <-- c_get "htmlDecodeByteAt:s[i]" s i ;;
        if beq c x3b then cret (val, i + 1)
        else if (code c <? 48) || (57 <? code c) then cret (val, i)
        else
          let val := val * 10 + (code c - 48) in
          if 1048831 <? val then cret (38, 1) else c_decode_dec_loop fuel' s (i + 1) val
      else cret (val, i)
  end.

Definition c_html_decode_byte_at (s : bytes) : cres (Z * Z) :=
  _ <-- tick 1 ;;
  let length := len s in
  if length =? 0 then cret (c_byte_eof, 0)
  else
    c0 <-- c_get "htmlDecodeByteAt:s[0]" s 0 ;;
    if negb (beq c0 x26) || (length <? 2) then cret (code c0, 1)
    else
      c1 <-- c_get "htmlDecodeByteAt:s[1]" s 1 ;;
      if negb (beq c1 x23) || (length <? 3) then cret (38, 1)
      else
        c2 <-- c_get "htmlDecodeByteAt:s[2]" s 2 ;;
        if beq c2 x78 || beq c2 x58 then
          if length <? 4 then cret (38, 1)
          else
            c3 <-- c_get "htmlDecodeByteAt:s[3]" s 3 ;;
            d <-- c_hex_val "htmlDecodeByteAt:gsHexDecodeMap" c3 ;;
            if d =? 256 then cret (38, 1)
            else c_decode_hex_loop (List.length s) s 4 d
        else
          if (code c2 <? 48) || (57 <? code c2) then cret (38, 1)
          else c_decode_dec_loop (List.length s) s 3 (code c2 - 48).

Fixpoint c_starts_with_loop (fuel : nat) (rest : bytes) (first : bool) (acc : bytes) : cres bytes :=
  match fuel with
  | O => if 0 <? len rest then OutOfFuel else cret (rev acc)
  | S fuel' =>
      _ <-- tick 1 ;;
      if 0 <? len rest then
        '(cb, consumed) <-- c_html_decode_byte_at rest ;;
        rest' <-- c_drop "htmlEncodeStartsWith:b[pos:]" rest consumed ;;
        if first && (cb <=? 32) then c_starts_with_loop fuel' rest' true acc
        else if (cb =? 0) || (cb =? 10) then c_starts_with_loop fuel' rest' false acc
        else
          let cb := if (97 <=? cb) && (cb <=? 122) then cb - 32 else cb in
          c_starts_with_loop fuel' rest' false (byte_of_Z cb :: acc)
      else cret (rev acc)
  end.

Definition c_html_encode_starts_with (a b : bytes) : cres bool :=
  decoded <-- c_starts_with_loop (S (List.length b)) b true [] ;;
  c_contains decoded a.

Fixpoint c_trim_left_junk (s : bytes) : cres bytes :=
  match s with
  | b :: s' =>
      _ <-- tick 1 ;;
      if (code b <=? 32) || (127 <=? code b) then c_trim_left_junk s' else cret s
  | [] => cret []
  end.

Fixpoint c_any_scheme (urls : list bytes) (str : bytes) : cres bool :=
  match urls with
  | [] => cret false
  | u :: urls' =>
      _ <-- tick 1 ;;
      r <-- c_html_encode_starts_with u str ;;
      if (r : bool) then cret true else c_any_scheme urls' str
  end.

Definition c_is_black_url (s : bytes) : cres bool :=
  t <-- c_trim_left_junk s ;;
  c_any_scheme url_schemes t.

Definition c_classify (h : h5) (attr : Z) : cres (option bool * Z) :=
  let attr := if negb (tok_type h =? c_html5_type_attr_value) then c_attribute_type_none else attr in
  start <-- c_drop "isXSS:tokenStart" (hs h) (tok_off h) ;;
  let ty := tok_type h in
  if ty =? c_html5_type_doc_type then cret (Some true, attr)
  else if ty =? c_html5_type_tag_name_open then
    v <-- c_take "isXSS:tokenStart[:tokenLen]" start (tok_len h) ;;
    b <-- c_is_black_tag v ;;
    if (b : bool) then cret (Some true, attr) else cret (None, attr)
  else if ty =? c_html5_type_attr_name then
    v <-- c_take "isXSS:tokenStart[:tokenLen]" start (tok_len h) ;;
    a <-- c_is_black_attr v ;;
    cret (None, a)
  else if ty =? c_html5_type_attr_value then
    if attr =? c_attribute_type_none then cret (None, c_attribute_type_none)
    else if attr =? c_attribute_type_black then cret (Some true, attr)
    else if attr =? c_attribute_type_attr_url then
      v <-- c_take "isXSS:tokenStart[:tokenLen]" start (tok_len h) ;;
      u <-- c_is_black_url v ;;
      if (u : bool) then cret (Some true, attr) else cret (None, c_attribute_type_none)
    else if attr =? c_attribute_type_style then cret (Some true, attr)
    else if attr =? c_attribute_type_attr_indirect then
      v <-- c_take "isXSS:tokenStart[:tokenLen]" start (tok_len h) ;;
      a <-- c_is_black_attr v ;;
      if a =? c_attribute_type_black then cret (Some true, attr) else cret (None, c_attribute_type_none)
    else cret (None, c_attribute_type_none)
  else if ty =? c_html5_type_tag_comment then
    v <-- c_take "isXSS:tokenStart[:tokenLen]" start (tok_len h) ;;
    ib <-- c_index_byte v x60 ;;
    if negb (ib =? -1) then cret (Some true, attr)
    else
      r1 <-- (if 3 <? tok_len h then
               (c0 <-- c_get "isXSS:tokenStart[0]" start 0 ;;
                is_if <-- (if beq c0 x5b then
                            (w <-- c_slice "isXSS:tokenStart[1:3]" start 1 3 ;; c_linear w (to_upper_cmp (bs "IF") w))
                          else cret false) ;;
                if (is_if : bool) then cret true
                else (w <-- c_slice "isXSS:tokenStart[0:3]" start 0 3 ;; c_linear w (to_upper_cmp (bs "XML") w)))
             else cret false) ;;
      if (r1 : bool) then cret (Some true, attr)
      else
        r2 <-- (if 5 <? tok_len h then
                 (w <-- c_take "isXSS:tokenStart[:6]" start 6 ;;
                  ou <-- c_upper_without_nulls w ;;
                  match ou with
                  | Some u =>
                      e1 <-- c_linear u (bytes_eqb u (bs "IMPORT")) ;;
                      if (e1 : bool) then cret true else c_linear u (bytes_eqb u (bs "ENTITY"))
                  | None =>
                      (* both comparisons are made; neither can match *)
                      let r := remove_byte x00 w in
                      _ <-- c_linear r false ;; c_linear r false
                  end)
               else cret false) ;;
        if (r2 : bool) then cret (Some true, attr) else cret (None, attr)
  else cret (None, attr).

Fixpoint c_xss_loop (fuel : nat) (h : h5) (attr : Z) : cres bool :=
  match fuel with
  | O => OutOfFuel
  | S fuel' =>
      _ <-- tick 1 ;;
      '(more, h) <-- c_h5_next h ;;
      if (more : bool) then
        '(r, attr) <-- c_classify h attr ;;
        match r with
        | Some b => cret b
        | None => c_xss_loop fuel' h attr
        end
      else cret false
  end.

Definition c_xss_ctx (s : bytes) (fl : Z) : cres bool :=
  c_xss_loop (h5_fuel s) (h5_init s fl) c_attribute_type_none.

Definition c_is_xss (s : bytes) : cres bool :=
  a <-- c_xss_ctx s c_html5_flags_data_state ;;
  if (a : bool) then cret true else
  b <-- c_xss_ctx s c_html5_flags_value_no_quote ;;
  if (b : bool) then cret true else
  c <-- c_xss_ctx s c_html5_flags_value_single_quote ;;
  if (c : bool) then cret true else
  d <-- c_xss_ctx s c_html5_flags_value_double_quote ;;
  if (d : bool) then cret true else
  c_xss_ctx s c_html5_flags_value_back_quote.
