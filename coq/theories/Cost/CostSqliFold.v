(* CostSqliFold: the cost-instrumented twin of SqliFold.v (C09, the folding pass,
   the fingerprint, blacklist / whitelist, the five-pass cascade of check, IsSQLi).

   Every function `f` of SqliFold.v that does work has a twin `c_f` in the cost
   monad of CostBase.v.  The twin mirrors the model line by line: same control
   flow, same panic sites, every primitive replaced by its instrumented version:
     - 1 per read / write / truncation of the token window (c_wget, c_wset, c_wtrunc),
     - 1 per checked index / slice expression (val[:len], val[0], fingerprint[i], input[i]),
     - len key + 1 per keyword look-up (merge looks up `a.val + " " + b.val`) and
       per upper-casing comparison (cmpCaseInsensitive on a token value; the 11
       comparisons of the function-like-name test are charged 11 * (len + 1)),
     - the cost of every call of the tokenizer (c_tokenize of CostSqliLex.v),
     - strings.IndexByte on a token value and on the input, strings.Contains
       (input, "sp_password"): per byte examined (c_index_byte, c_contains),
     - len fp + 2 for blacklist (upper-casing the fingerprint and looking it up),
       len fp + 1 for every comparison of the fingerprint with a literal,
     - `tick 1` per iteration of every loop (the two fetch loops, the main loop of
       fold, the initial skip loop, the fingerprint loop) and at the entry of
       rules2 / rules3 / fold_iter.
   fold_loop only groups the iterations of the main loop into chunks (a device
   of the model to keep the fuel small): it is not charged.
   Definitions only; erasure and bounds are in CostSqliFoldProofs.v. *)
From Coq Require Import List ZArith String Bool.
From Coq.Strings Require Import Byte.
From LI Require Import Prelude Base SqliLex SqliFold Cost.CostBase Cost.CostSqliLex.
From LIGen Require Import Tables Dispatch Consts.
Import ListNotations.
Local Open Scope Z_scope.
Local Open Scope cost_scope.

(* ---------- window primitives ---------- *)

Definition c_wget (site : string) (w : list token) (i : Z) : cres token := charge 1 (wget site w i).
Definition c_wset (site : string) (w : list token) (i : Z) (t : token) : cres (list token) :=
  charge 1 (wset site w i t).
Definition c_wtrunc (site : string) (w : list token) (n : Z) : cres (list token) :=
  charge 1 (wtrunc site w n).

Definition c_val_prefix (site : string) (t : token) : cres bytes := c_take site (t_val t) (t_len t).

(* ---------- merge ---------- *)

Definition c_merge (a b : token) : cres (option token) :=
  if negb (merge_left_ok a) then cret None
  else if negb (merge_right_ok b) then cret None
  else if c_token_size <? t_len a + t_len b + 1 then cret None
  else
    va <-- c_val_prefix "merge:tokenA.val[:len]" a ;;
    vb <-- c_val_prefix "merge:tokenB.val[:len]" b ;;
    let tmp := va ++ [x20] ++ vb in
    ch <-- c_search_keyword tmp ;;
    if negb (beq ch x00) then
      a' <-- c_assign a ch (t_pos a) (len tmp) tmp ;; cret (Some a')
    else cret None.

(* ---------- fold ---------- *)

Fixpoint c_fetch (fuel : nat) (want : Z) (f : fstate) : cres fstate :=
  match fuel with
  | O => OutOfFuel
  | S fuel' =>
      _ <-- tick 1 ;;
      let p := wlen (f_win f) in
      if f_more f && (p <=? c_max_tokens) && (p - f_left f <? want) then
        '(more, t, s) <-- c_tokenize (f_s f) tok0 ;;
        if (more : bool) then
          if cat_is t b_sqli_token_type_comment
          then c_fetch fuel' want (mkF s (f_win f) (f_left f) true t)
          else c_fetch fuel' want
                 (mkF s (f_win f ++ [t]) (f_left f) true (set_cat (f_last f) x00))
        else c_fetch fuel' want (mkF s (f_win f) (f_left f) false (f_last f))
      else cret f
  end.

Definition c_fetch_n (want : Z) (f : fstate) : cres fstate :=
  c_fetch (S (S (List.length (input (f_s f))))) want f.

Definition c_five_special (w : list token) : cres bool :=
  t0 <-- c_wget "fold:tokenVec[0]" w 0 ;; t1 <-- c_wget "fold:tokenVec[1]" w 1 ;;
  t2 <-- c_wget "fold:tokenVec[2]" w 2 ;; t3 <-- c_wget "fold:tokenVec[3]" w 3 ;;
  t4 <-- c_wget "fold:tokenVec[4]" w 4 ;;
  let N := b_sqli_token_type_number in let O := b_sqli_token_type_operator in
  let C := b_sqli_token_type_comma in let L := b_sqli_token_type_left_parenthesis in
  let R := b_sqli_token_type_right_parenthesis in let W := b_sqli_token_type_bare_word in
  cret ((cat_is t0 N && (cat_is t1 O || cat_is t1 C) && cat_is t2 L && cat_is t3 N && cat_is t4 R)
      || (cat_is t0 W && cat_is t1 O && cat_is t2 L && (cat_is t3 W || cat_is t3 N) && cat_is t4 R)
      || (cat_is t0 N && cat_is t1 R && cat_is t2 C && cat_is t3 L && cat_is t4 N)
      || (cat_is t0 W && cat_is t1 R && cat_is t2 O && cat_is t3 L && cat_is t4 W)).

(* eleven cmpCaseInsensitive calls on the same value *)
Definition c_name_is_function_like (v : bytes) : cres bool :=
  pure_c (11 * (len v + 1)) (name_is_function_like v).

Definition c_rules3 (f : fstate) : cres step_out :=
  _ <-- tick 1 ;;
  let w := f_win f in let l := f_left f in let s := f_s f in let p := wlen w in
  a <-- c_wget "fold:tokenVec[left]" w l ;;
  b <-- c_wget "fold:tokenVec[left+1]" w (l + 1) ;;
  c <-- c_wget "fold:tokenVec[left+2]" w (l + 2) ;;
  let N := b_sqli_token_type_number in let O := b_sqli_token_type_operator in
  let W := b_sqli_token_type_bare_word in let V := b_sqli_token_type_variable in
  let S_ := b_sqli_token_type_string in let LP := b_sqli_token_type_left_parenthesis in
  let drop2 := (w' <-- c_wtrunc "fold:pos-=2" w (p - 2) ;; cret (Continue (upd f s w' 0))) in
  let shift1 := (w' <-- c_wset "fold:tokenVec[left+1]=tokenVec[left+2]" w (l + 1) c ;;
                 w' <-- c_wtrunc "fold:pos--" w' (p - 1) ;; cret (Continue (upd f s w' 0))) in
  if cat_is a N && cat_is b O && cat_is c N then drop2
  else if cat_is a O && negb (cat_is b LP) && cat_is c O then drop2
  else if cat_is a b_sqli_token_type_logic_operator && cat_is c b_sqli_token_type_logic_operator then drop2
  else if cat_is a V && cat_is b O && (cat_is c V || cat_is c N || cat_is c W) then drop2
  else if (cat_is a W || cat_is a N) && cat_is b O && (cat_is c N || cat_is c W) then drop2
  else
  g6 <-- (if (cat_is a W || cat_is a N || cat_is a V || cat_is a S_) && cat_is b O then
           (v <-- c_val_prefix "fold:tokenVec[left+1].val[:len]" b ;;
            c_linear v (bytes_eqb v (bs "::") && cat_is c b_sqli_token_type_sqltype))
         else cret false) ;;
  if (g6 : bool) then
    w' <-- c_wtrunc "fold:pos-=2" w (p - 2) ;; cret (Continue (upd f (bump_folds s 2) w' 0))
  else if (cat_is a W || cat_is a N || cat_is a S_ || cat_is a V) && cat_is b b_sqli_token_type_comma
          && (cat_is c N || cat_is c W || cat_is c S_ || cat_is c V) then drop2
  else
  ub <-- c_is_unary_op b ;;
  if (cat_is a b_sqli_token_type_expression || cat_is a b_sqli_token_type_group
      || cat_is a b_sqli_token_type_comma) && ub && cat_is c LP then shift1
  else if (cat_is a b_sqli_token_type_keyword || cat_is a b_sqli_token_type_expression
           || cat_is a b_sqli_token_type_group) && ub
          && (cat_is c N || cat_is c W || cat_is c V || cat_is c S_ || cat_is c b_sqli_token_type_function)
  then shift1
  else if cat_is a b_sqli_token_type_comma && ub && (cat_is c N || cat_is c W || cat_is c V || cat_is c S_)
  then
    w' <-- c_wset "fold:tokenVec[left+1]=tokenVec[left+2]" w (l + 1) c ;;
    w' <-- c_wtrunc "fold:pos-=3" w' (p - 3) ;; cret (Continue (upd f s w' 0))
  else if cat_is a b_sqli_token_type_comma && ub && cat_is c b_sqli_token_type_function then shift1
  else if cat_is a W && cat_is b b_sqli_token_type_dot && cat_is c W then drop2
  else if cat_is a b_sqli_token_type_expression && cat_is b b_sqli_token_type_dot && cat_is c W then shift1
  else if cat_is a b_sqli_token_type_function && cat_is b LP
          && negb (cat_is c b_sqli_token_type_right_parenthesis) then
    v <-- c_val_prefix "fold:tokenVec[left].val[:len]" a ;;
    isuser <-- c_linear v (to_upper_cmp (bs "USER") v) ;;
    w' <-- (if (isuser : bool)
           then c_wset "fold:tokenVec[left].category" w l (set_cat a W) else cret w) ;;
    cret (Continue (upd f s w' (l + 1)))
  else cret (Continue (upd f s w (l + 1))).

Definition c_rules2 (fetch3 : fstate -> cres fstate) (f : fstate) : cres step_out :=
  _ <-- tick 1 ;;
  let w := f_win f in let l := f_left f in let s := f_s f in let p := wlen w in
  a <-- c_wget "fold:tokenVec[left]" w l ;;
  b <-- c_wget "fold:tokenVec[left+1]" w (l + 1) ;;
  let S_ := b_sqli_token_type_string in let O := b_sqli_token_type_operator in
  let W := b_sqli_token_type_bare_word in let LP := b_sqli_token_type_left_parenthesis in
  let RP := b_sqli_token_type_right_parenthesis in let T := b_sqli_token_type_sqltype in
  let SC := b_sqli_token_type_semi_colon in let FN := b_sqli_token_type_function in
  let K := b_sqli_token_type_keyword in
  let pop (left' : Z) := (w' <-- c_wtrunc "fold:pos--" w (p - 1) ;;
                          cret (Continue (upd f (bump_folds s 1) w' left'))) in
  let dec_left := if 0 <? l then l - 1 else l in
  let three (f : fstate) :=
    (f <-- fetch3 f ;;
     if wlen (f_win f) - f_left f <? 3
     then cret (Continue (mkF (f_s f) (f_win f) (wlen (f_win f)) (f_more f) (f_last f)))
     else c_rules3 f) in
  if cat_is a S_ && cat_is b S_ then pop l
  else if cat_is a SC && cat_is b SC then pop l
  else
  ub <-- (if cat_is a O || cat_is a b_sqli_token_type_logic_operator
         then (u <-- c_is_unary_op b ;; cret (u || cat_is b T)) else cret false) ;;
  if (ub : bool) then pop 0
  else
  lu <-- (if cat_is a LP then c_is_unary_op b else cret false) ;;
  if (lu : bool) then pop dec_left
  else
  m <-- c_merge a b ;;
  match m with
  | Some a' =>
      w' <-- c_wset "fold:merge" w l a' ;;
      w' <-- c_wtrunc "fold:pos--" w' (p - 1) ;;
      cret (Continue (upd f (bump_folds s 1) w' dec_left))
  | None =>
  is_if <-- (if cat_is a SC && cat_is b FN then
              (c0 <-- c_get "fold:val[0]" (t_val b) 0 ;;
               if beq c0 x49 || beq c0 x69 then
                 (c1 <-- c_get "fold:val[1]" (t_val b) 1 ;; cret (beq c1 x46 || beq c1 x66))
               else cret false)
            else cret false) ;;
  if (is_if : bool) then
    w' <-- c_wset "fold:IF" w (l + 1) (set_cat b b_sqli_token_type_tsql) ;;
    cret (Continue (upd f s w' l))
  else
  fnlike <-- (if (cat_is a W || cat_is a b_sqli_token_type_variable) && cat_is b LP then
               (v <-- c_val_prefix "fold:tokenVec[left].val[:len]" a ;; c_name_is_function_like v)
             else cret false) ;;
  if (fnlike : bool) then
    w' <-- c_wset "fold:function" w l (set_cat a FN) ;; cret (Continue (upd f s w' l))
  else
  is_in <-- (if cat_is a K then
              (v <-- c_val_prefix "fold:tokenVec[left].val[:len]" a ;;
               _ <-- c_linear v tt ;;
               c_linear v (to_upper_cmp (bs "IN") v || to_upper_cmp (bs "NOT IN") v))
            else cret false) ;;
  if (is_in : bool) then
    w' <-- c_wset "fold:IN" w l (set_cat a (if cat_is b LP then O else W)) ;;
    cret (Continue (upd f s w' l))
  else
  is_like <-- (if cat_is a O then
                (v <-- c_val_prefix "fold:tokenVec[left].val[:len]" a ;;
                 _ <-- c_linear v tt ;;
                 c_linear v (to_upper_cmp (bs "LIKE") v || to_upper_cmp (bs "NOT LIKE") v))
              else cret false) ;;
  if (is_like : bool) then
    w' <-- (if cat_is b LP then c_wset "fold:LIKE" w l (set_cat a FN) else cret w) ;;
    three (upd f s w' l)
  else if cat_is a T && (cat_is b W || cat_is b b_sqli_token_type_number || cat_is b T || cat_is b LP
                         || cat_is b FN || cat_is b b_sqli_token_type_variable || cat_is b S_) then
    w' <-- c_wset "fold:tokenVec[left]=tokenVec[left+1]" w l b ;;
    w' <-- c_wtrunc "fold:pos--" w' (p - 1) ;;
    cret (Continue (upd f (bump_folds s 1) w' 0))
  else if cat_is a b_sqli_token_type_collate && cat_is b W then
    idx <-- c_index_byte (t_val b) x5f ;;
    if negb (idx =? -1) then
      w' <-- c_wset "fold:collate" w (l + 1) (set_cat b T) ;;
      three (upd f s w' 0)
    else three f
  else if cat_is a b_sqli_token_type_backslash then
    ar <-- c_is_arithmetic_op b ;;
    if (ar : bool) then
      w' <-- c_wset "fold:backslash" w l (set_cat a b_sqli_token_type_number) ;;
      cret (Continue (upd f s w' 0))
    else
      w' <-- c_wset "fold:tokenVec[left]=tokenVec[left+1]" w l b ;;
      w' <-- c_wtrunc "fold:pos--" w' (p - 1) ;;
      cret (Continue (upd f (bump_folds s 1) w' 0))
  else if cat_is a LP && cat_is b LP then pop 0
  else if cat_is a RP && cat_is b RP then pop 0
  else if cat_is a b_sqli_token_type_left_brace && cat_is b W then
    if t_len b =? 0 then
      w' <-- c_wset "fold:evil" w (l + 1) (set_cat b b_sqli_token_type_evil) ;;
      cret (Return (l + 2) (upd f s w' l))
    else
      w' <-- c_wtrunc "fold:pos-=2" w (p - 2) ;;
      cret (Continue (upd f (bump_folds s 2) w' 0))
  else if cat_is b b_sqli_token_type_right_brace then pop 0
  else three f
  end.

Definition c_fold_iter (f : fstate) : cres iter_out :=
  _ <-- tick 1 ;;
  let p := wlen (f_win f) in
  f <-- (if c_max_tokens <=? p then
          (sp <-- c_five_special (f_win f) ;;
           if (sp : bool) then
             if c_max_tokens <? p then
               (t5 <-- c_wget "fold:tokenVec[5]" (f_win f) 5 ;;
                w' <-- c_wset "fold:tokenVec[1]=tokenVec[5]" (f_win f) 1 t5 ;;
                w' <-- c_wtrunc "fold:pos=2" w' 2 ;;
                cret (mkF (f_s f) w' 0 (f_more f) (f_last f)))
             else
               (w' <-- c_wtrunc "fold:pos=1" (f_win f) 1 ;;
                cret (mkF (f_s f) w' 0 (f_more f) (f_last f)))
           else cret f)
        else cret f) ;;
  if negb (f_more f) || (c_max_tokens <=? f_left f) then
    cret (Break (mkF (f_s f) (f_win f) (wlen (f_win f)) (f_more f) (f_last f)))
  else
    f <-- c_fetch_n 2 f ;;
    if wlen (f_win f) - f_left f <? 2 then
      cret (Again (mkF (f_s f) (f_win f) (wlen (f_win f)) (f_more f) (f_last f)))
    else
      r <-- c_rules2 (c_fetch_n 3) f ;;
      match r with
      | Continue f => cret (Again f)
      | Return n f => cret (Ret n f)
      end.

Definition c_fold_finish (f : fstate) : cres (Z * fstate) :=
  let l := f_left f in
  '(w, l) <-- (if (l <? c_max_tokens) && cat_is (f_last f) b_sqli_token_type_comment then
                if l =? wlen (f_win f) then pure_c 1 (f_win f ++ [f_last f], l + 1)
                else (w' <-- c_wset "fold:tokenVec[left]=lastComment" (f_win f) l (f_last f) ;;
                      cret (w', l + 1))
              else cret (f_win f, l)) ;;
  let l := if c_max_tokens <? l then c_max_tokens else l in
  cret (l, mkF (f_s f) w l (f_more f) (f_last f)).

Fixpoint c_fold_steps (k : nat) (f : fstate) : cres (fstate + Z * fstate) :=
  match k with
  | O => cret (inl f)
  | S k' =>
      r <-- c_fold_iter f ;;
      match r with
      | Again f => c_fold_steps k' f
      | Ret n f => cret (inr (n, f))
      | Break f => (x <-- c_fold_finish f ;; cret (inr x))
      end
  end.

Fixpoint c_fold_loop (fuel : nat) (f : fstate) : cres (Z * fstate) :=
  match fuel with
  | O => OutOfFuel
  | S fuel' =>
      r <-- c_fold_steps fold_chunk f ;;
      match r with
      | inl f => c_fold_loop fuel' f
      | inr x => cret x
      end
  end.

Fixpoint c_skip_loop (fuel : nat) (s : sqlst) (cur : token) : cres (bool * token * sqlst) :=
  match fuel with
  | O => OutOfFuel
  | S fuel' =>
      _ <-- tick 1 ;;
      '(more, t, s) <-- c_tokenize s cur ;;
      u <-- c_is_unary_op t ;;
      if negb (cat_is t b_sqli_token_type_comment || cat_is t b_sqli_token_type_left_parenthesis
               || cat_is t b_sqli_token_type_sqltype || u)
      then cret (more, t, s)
      else if (more : bool) then c_skip_loop fuel' s t else cret (more, t, s)
  end.

Definition c_fold (s : sqlst) : cres (list token * sqlst) :=
  '(more, t, s) <-- c_skip_loop (S (S (List.length (input s)))) s tok0 ;;
  if negb more then cret ([], s)
  else
    '(n, f) <-- c_fold_loop (fold_fuel s) (mkF s [t] 0 true tok0) ;;
    w <-- c_wtrunc "fold:return" (f_win f) n ;;
    cret (w, f_s f).

(* ---------- fingerprint ---------- *)

Fixpoint c_fp_loop (w : list token) (acc : bytes) : cres (option bytes) :=
  _ <-- tick 1 ;;
  match w with
  | [] => cret (Some (rev acc))
  | t :: w' => if cat_is t b_sqli_token_type_evil then cret None else c_fp_loop w' (t_cat t :: acc)
  end.

Definition c_sqli_fingerprint (s : sqlst) (fl : Z) : cres (bytes * list token * sqlst) :=
  let s := reset s fl in
  '(w, s) <-- c_fold s ;;
  let n := wlen w in
  w <-- (if 2 <? n then
          (lt <-- c_wget "sqliFingerprint:tokenVec[length-1]" w (n - 1) ;;
           if cat_is lt b_sqli_token_type_bare_word && beq (t_open lt) b_byte_tick
              && (t_len lt =? 0) && beq (t_close lt) x00
           then c_wset "sqliFingerprint" w (n - 1) (set_cat lt b_sqli_token_type_comment)
           else cret w)
        else cret w) ;;
  r <-- c_fp_loop w [] ;;
  match r with
  | Some fp => cret (fp, w, s)
  | None =>
      t0 <-- c_wget "sqliFingerprint:tokenVec[0]" w 0 ;;
      let t0 := mkTok (t_pos t0) (t_len t0) (t_count t0) b_sqli_token_type_evil (t_open t0) (t_close t0)
                      [b_sqli_token_type_evil] in
      w <-- c_wset "sqliFingerprint:tokenVec[0]" w 0 t0 ;;
      cret ([b_sqli_token_type_evil], w, s)
  end.

(* upper-casing the fingerprint and looking up "0" + fingerprint *)
Definition c_blacklist (fp : bytes) : cres bool := pure_c (len fp + 2) (blacklist fp).

Definition c_not_whitelist (s : sqlst) (fp : bytes) (w : list token) : cres bool :=
  let length := len fp in
  early <-- (if 1 <? length then
              (lc <-- c_get "notWhitelist:fingerprint[length-1]" fp (length - 1) ;;
               sp <-- c_contains (input s) (bs "sp_password") ;;
               cret (beq lc b_sqli_token_type_comment && sp))
            else cret false) ;;
  if (early : bool) then cret true
  else if length =? 2 then
    f1 <-- c_get "notWhitelist:fingerprint[1]" fp 1 ;;
    if beq f1 b_sqli_token_type_union then cret (negb (n_tokens (st s) =? 2))
    else
      t1 <-- c_wget "notWhitelist:tokenVec[1]" w 1 ;;
      v0 <-- c_get "notWhitelist:tokenVec[1].val[0]" (t_val t1) 0 ;;
      if beq v0 x23 then cret false
      else
        t0 <-- c_wget "notWhitelist:tokenVec[0]" w 0 ;;
        if cat_is t0 b_sqli_token_type_bare_word && cat_is t1 b_sqli_token_type_comment
           && negb (beq v0 x2f) then cret false
        else if cat_is t0 b_sqli_token_type_number && cat_is t1 b_sqli_token_type_comment
                && beq v0 x2f then cret true
        else if cat_is t0 b_sqli_token_type_number && cat_is t1 b_sqli_token_type_comment then
          if 2 <? n_tokens (st s) then cret true
          else
            ch <-- c_get "notWhitelist:input[tokenVec[0].len]" (input s) (t_len t0) ;;
            if (code ch <=? 32) || is_byte_white ch then cret true
            else
              sl <-- (if beq ch x2f then
                       (c <-- c_get "notWhitelist:input[tokenVec[0].len+1]" (input s) (t_len t0 + 1) ;;
                        cret (beq c x2a))
                     else cret false) ;;
              if (sl : bool) then cret true
              else
                dd <-- (if beq ch x2d then
                         (c <-- c_get "notWhitelist:input[tokenVec[0].len+1]" (input s) (t_len t0 + 1) ;;
                          cret (beq c x2d))
                       else cret false) ;;
                cret dd
        else if (2 <? t_len t1) && beq v0 x2d then cret false
        else cret true
  else if length =? 3 then
    sos <-- c_linear fp (bytes_eqb fp (bs "sos") || bytes_eqb fp (bs "s&s")) ;;
    if (sos : bool) then
      t0 <-- c_wget "notWhitelist:tokenVec[0]" w 0 ;;
      t2 <-- c_wget "notWhitelist:tokenVec[2]" w 2 ;;
      cret (beq (t_open t0) x00 && beq (t_close t2) x00 && beq (t_close t0) (t_open t2))
    else
      listed <-- c_linear fp (bytes_eqb fp (bs "s&n") || bytes_eqb fp (bs "n&1") || bytes_eqb fp (bs "1&1")
                              || bytes_eqb fp (bs "1&v") || bytes_eqb fp (bs "1&s")) ;;
      if listed && (n_tokens (st s) =? 3) then cret false
      else
        t1 <-- c_wget "notWhitelist:tokenVec[1]" w 1 ;;
        safe <-- (if cat_is t1 b_sqli_token_type_keyword then
                   if t_len t1 <? 5 then cret true
                   else (v <-- c_take "notWhitelist:tokenVec[1].val[:4]" (t_val t1) 4 ;;
                         c_linear v (negb (to_upper_cmp (bs "INTO") v)))
                 else cret false) ;;
        cret (negb safe)
  else cret true.

Definition c_check_fingerprint (s : sqlst) (fp : bytes) (w : list token) : cres bool :=
  bl <-- c_blacklist fp ;;
  if (bl : bool) then c_not_whitelist s fp w else cret false.

Definition c_reparse_as_mysql (s : sqlst) : cres bool := pure_c 1 (reparse_as_mysql s).

Definition c_check (s : sqlst) : cres (bool * bytes) :=
  if slen s =? 0 then cret (false, [])
  else
    let try (s : sqlst) (fl : Z) (k : sqlst -> cres (bool * bytes)) : cres (bool * bytes) :=
      ('(fp, w, s) <-- c_sqli_fingerprint s fl ;;
       v <-- c_check_fingerprint s fp w ;;
       if (v : bool) then cret (true, fp) else k s) in
    let dbl (s : sqlst) :=
      idx <-- c_index_byte (input s) b_byte_double ;;
      if negb (idx =? -1) then
        try s (Z.lor c_sqli_flag_quote_double c_sqli_flag_sqlmysql) (fun _ => cret (false, []))
      else cret (false, []) in
    let sgl (s : sqlst) :=
      idx <-- c_index_byte (input s) b_byte_single ;;
      if negb (idx =? -1) then
        try s (Z.lor c_sqli_flag_quote_single c_sqli_flag_sqlansi)
          (fun s => re <-- c_reparse_as_mysql s ;;
                    if (re : bool)
                    then try s (Z.lor c_sqli_flag_quote_single c_sqli_flag_sqlmysql) dbl
                    else dbl s)
      else dbl s in
    try s (Z.lor c_sqli_flag_quote_none c_sqli_flag_sqlansi)
      (fun s => re <-- c_reparse_as_mysql s ;;
                if (re : bool)
                then try s (Z.lor c_sqli_flag_quote_none c_sqli_flag_sqlmysql) sgl
                else sgl s).

Definition c_is_sqli (inp : bytes) : cres (bool * bytes) :=
  '(b, fp) <-- c_check (sqli_init inp 0) ;;
  if (b : bool) then cret (true, fp) else cret (false, []).
