(* CostSqliLexProofs: erasure and cost bounds for the instrumented SQL tokenizer
   (C09).  See C09lex.v for the statement in plain words. *)
From Coq Require Import List ZArith String Bool Lia ZifyBool.
From Coq.Strings Require Import Byte.
From LI Require Import Prelude Base SqliLex Cost.CostBase Cost.CostSqliLex
  Proofs.BaseFacts Proofs.Wp Proofs.LexBase Proofs.LexSpec Proofs.TokensSpec.
From LIGen Require Import Tables Dispatch Consts.
Import ListNotations.
Local Open Scope Z_scope.

(* ====================================================================== *)
(* Part (a): erasure                                                      *)
(* ====================================================================== *)

Lemma erase_cbind {A B} (m : cres A) (k : A -> cres B) :
  erase (cbind m k) = bind (erase m) (fun a => erase (k a)).
Proof.
  destruct m as [[a c]| | |]; cbn; auto. destruct (k a) as [[b c']| | |]; cbn; auto.
Qed.

Lemma erase_cbind_eq {A B} (m : cres A) (k : A -> cres B) m' k' :
  erase m = m' -> (forall a, erase (k a) = k' a) -> erase (cbind m k) = bind m' k'.
Proof.
  intros <- H. rewrite erase_cbind. destruct (erase m); cbn; auto.
Qed.

Lemma erase_ok_bind {A B} (a : A) (c : Z) (k : A -> cres B) :
  erase (cbind (Ok (a, c)) k) = erase (k a).
Proof. cbn. destruct (k a) as [[b c']| | |]; reflexivity. Qed.

Lemma erase_charge {A} n (m : res A) : erase (charge n m) = m.
Proof. destruct m; reflexivity. Qed.

Lemma erase_c_span_len site p s n : erase (c_span_len site p s n) = span_len site p s n.
Proof. unfold c_span_len. destruct (span_len site p s n); reflexivity. Qed.

(* closed forms of the total helpers *)
Lemma c_trailing_bs_count_eq l :
  c_trailing_bs_count l = Ok (trailing_bs_count l, trailing_bs_count l + 1).
Proof.
  induction l as [|b l IH]; cbn [c_trailing_bs_count trailing_bs_count]; [reflexivity|].
  destruct (beq b x5c); [|reflexivity].
  rewrite IH. unfold cbind, tick, cret. f_equal. f_equal. lia.
Qed.

Lemma c_is_backslash_escaped_eq str :
  c_is_backslash_escaped str =
  Ok (is_backslash_escaped str, trailing_bs_count (rev str) + 1).
Proof.
  unfold c_is_backslash_escaped, is_backslash_escaped. rewrite c_trailing_bs_count_eq.
  unfold cbind, cret. f_equal. f_equal. lia.
Qed.

Create HintDb cerase.

Ltac er_unfold :=
  unfold c_search_keyword, c_index_byte, c_index, c_contains, c_span, c_linear,
         c_is_double_delimiter_escaped, tick, pure_c, cret,
         c_str_len_spn, c_str_len_cspn, str_len_spn, str_len_cspn,
         c_at_, c_input_from, at_, input_from, c_get, c_drop, c_take, c_slice.

Ltac er_leaf :=
  first [ reflexivity | apply erase_charge | apply erase_c_span_len | solve [ eauto with cerase ] ].

Ltac er_step :=
  cbv zeta;
  lazymatch goal with
  | |- erase (cbind (Ok (_, _)) _) = _ => rewrite erase_ok_bind
  | |- erase (cbind (c_is_backslash_escaped _) _) = _ => rewrite c_is_backslash_escaped_eq
  | |- erase (cbind _ _) = bind _ _ => apply erase_cbind_eq; [ | intros ? ]
  | |- erase (if ?c then _ else _) = _ => destruct c eqn:?
  | |- erase (let '(_, _) := ?x in _) = _ => destruct x
  | |- erase (match ?x with Some _ => _ | None => _ end) = _ => destruct x
  | |- erase (match ?x with [] => _ | _ :: _ => _ end) = _ => destruct x
  | |- _ => er_leaf
  end.

Ltac er := er_unfold; repeat er_step.

Lemma erase_c_search_keyword key : erase (c_search_keyword key) = Ok (search_keyword key).
Proof. reflexivity. Qed.

Lemma erase_c_assign t ty p length value : erase (c_assign t ty p length value) = assign t ty p length value.
Proof. unfold c_assign, assign. er. Qed.
#[export] Hint Resolve erase_c_assign : cerase.

Lemma erase_c_trailing_bs_count l : erase (c_trailing_bs_count l) = Ok (trailing_bs_count l).
Proof. rewrite c_trailing_bs_count_eq. reflexivity. Qed.

Lemma erase_c_is_backslash_escaped str : erase (c_is_backslash_escaped str) = Ok (is_backslash_escaped str).
Proof. rewrite c_is_backslash_escaped_eq. reflexivity. Qed.

Lemma erase_c_is_double_delimiter_escaped str :
  erase (c_is_double_delimiter_escaped str) = Ok (is_double_delimiter_escaped str).
Proof. reflexivity. Qed.

Lemma erase_c_string_core_loop fuel : forall s start k delim,
  erase (c_string_core_loop fuel s start k delim) = string_core_loop fuel s start k delim.
Proof.
  induction fuel as [|fuel IH]; intros s start k delim; cbn [c_string_core_loop string_core_loop]; [reflexivity|].
  er.
Qed.
#[export] Hint Resolve erase_c_string_core_loop : cerase.

Lemma erase_c_parse_string_core t s length p offset delim :
  erase (c_parse_string_core t s length p offset delim) = parse_string_core t s length p offset delim.
Proof. unfold c_parse_string_core, parse_string_core. er. Qed.
#[export] Hint Resolve erase_c_parse_string_core : cerase.

Lemma erase_c_is_unary_op t : erase (c_is_unary_op t) = is_unary_op t.
Proof. unfold c_is_unary_op, is_unary_op. er. Qed.

Lemma erase_c_is_arithmetic_op t : erase (c_is_arithmetic_op t) = is_arithmetic_op t.
Proof. unfold c_is_arithmetic_op, is_arithmetic_op. er. Qed.

Lemma erase_c_str_len_spn s n acc : erase (c_str_len_spn s n acc) = str_len_spn s n acc.
Proof. apply erase_c_span_len. Qed.
Lemma erase_c_str_len_cspn s n acc : erase (c_str_len_cspn s n acc) = str_len_cspn s n acc.
Proof. apply erase_c_span_len. Qed.

Lemma erase_c_is_mysql_comment s p : erase (c_is_mysql_comment s p) = is_mysql_comment s p.
Proof. unfold c_is_mysql_comment, is_mysql_comment. er. Qed.
#[export] Hint Resolve erase_c_is_mysql_comment : cerase.

Ltac er_lexer L cL := intros; unfold cL, L; er.

Lemma erase_c_parse_eol_comment s t : erase (c_parse_eol_comment s t) = parse_eol_comment s t.
Proof. er_lexer parse_eol_comment c_parse_eol_comment. Qed.
#[export] Hint Resolve erase_c_parse_eol_comment : cerase.

Lemma erase_c_parse_other s t : erase (c_parse_other s t) = parse_other s t.
Proof. er_lexer parse_other c_parse_other. Qed.

Lemma erase_c_parse_white s t : erase (c_parse_white s t) = parse_white s t.
Proof. er_lexer parse_white c_parse_white. Qed.

Lemma erase_c_parse_operator1 s t : erase (c_parse_operator1 s t) = parse_operator1 s t.
Proof. er_lexer parse_operator1 c_parse_operator1. Qed.
#[export] Hint Resolve erase_c_parse_operator1 : cerase.

Lemma erase_c_parse_byte s t : erase (c_parse_byte s t) = parse_byte s t.
Proof. er_lexer parse_byte c_parse_byte. Qed.

Lemma erase_c_parse_hash s t : erase (c_parse_hash s t) = parse_hash s t.
Proof. er_lexer parse_hash c_parse_hash. Qed.

Lemma erase_c_parse_dash s t : erase (c_parse_dash s t) = parse_dash s t.
Proof. er_lexer parse_dash c_parse_dash. Qed.

Lemma erase_c_parse_slash s t : erase (c_parse_slash s t) = parse_slash s t.
Proof. er_lexer parse_slash c_parse_slash. Qed.

Lemma erase_c_parse_backslash s t : erase (c_parse_backslash s t) = parse_backslash s t.
Proof. er_lexer parse_backslash c_parse_backslash. Qed.

Lemma erase_c_parse_operator2 s t : erase (c_parse_operator2 s t) = parse_operator2 s t.
Proof. er_lexer parse_operator2 c_parse_operator2. Qed.

Lemma erase_c_parse_string s t : erase (c_parse_string s t) = parse_string s t.
Proof. er_lexer parse_string c_parse_string. Qed.
#[export] Hint Resolve erase_c_parse_string : cerase.

Lemma erase_c_word_split_loop fuel : forall val i n,
  erase (c_word_split_loop fuel val i n) = word_split_loop fuel val i n.
Proof.
  induction fuel as [|fuel IH]; intros val i n; cbn [c_word_split_loop word_split_loop]; er.
Qed.
#[export] Hint Resolve erase_c_word_split_loop : cerase.

Lemma erase_c_parse_word s t : erase (c_parse_word s t) = parse_word s t.
Proof. er_lexer parse_word c_parse_word. Qed.
#[export] Hint Resolve erase_c_parse_word : cerase.

Lemma erase_c_parse_tick s t : erase (c_parse_tick s t) = parse_tick s t.
Proof. er_lexer parse_tick c_parse_tick. Qed.
#[export] Hint Resolve erase_c_parse_tick : cerase.

Lemma erase_c_parse_var s t : erase (c_parse_var s t) = parse_var s t.
Proof. er_lexer parse_var c_parse_var. Qed.

Lemma erase_c_parse_money s t : erase (c_parse_money s t) = parse_money s t.
Proof. er_lexer parse_money c_parse_money. Qed.

Lemma erase_c_parse_number s t : erase (c_parse_number s t) = parse_number s t.
Proof. er_lexer parse_number c_parse_number. Qed.

Lemma erase_c_parse_ustring s t : erase (c_parse_ustring s t) = parse_ustring s t.
Proof. er_lexer parse_ustring c_parse_ustring. Qed.

Lemma erase_c_parse_estring s t : erase (c_parse_estring s t) = parse_estring s t.
Proof. er_lexer parse_estring c_parse_estring. Qed.
#[export] Hint Resolve erase_c_parse_estring : cerase.

Lemma erase_c_parse_qstring_core o s t : erase (c_parse_qstring_core o s t) = parse_qstring_core o s t.
Proof. er_lexer parse_qstring_core c_parse_qstring_core. Qed.
#[export] Hint Resolve erase_c_parse_qstring_core : cerase.

Lemma erase_c_parse_qstring s t : erase (c_parse_qstring s t) = parse_qstring s t.
Proof. apply erase_c_parse_qstring_core. Qed.

Lemma erase_c_parse_nqstring s t : erase (c_parse_nqstring s t) = parse_nqstring s t.
Proof. er_lexer parse_nqstring c_parse_nqstring. Qed.

Lemma erase_c_parse_xb_string d s t : erase (c_parse_xb_string d s t) = parse_xb_string d s t.
Proof. er_lexer parse_xb_string c_parse_xb_string. Qed.

Lemma erase_c_parse_xstring s t : erase (c_parse_xstring s t) = parse_xstring s t.
Proof. apply erase_c_parse_xb_string. Qed.
Lemma erase_c_parse_bstring s t : erase (c_parse_bstring s t) = parse_bstring s t.
Proof. apply erase_c_parse_xb_string. Qed.

Lemma erase_c_parse_bword s t : erase (c_parse_bword s t) = parse_bword s t.
Proof. er_lexer parse_bword c_parse_bword. Qed.

Lemma erase_c_run_parser id s t : erase (c_run_parser id s t) = run_parser id s t.
Proof.
  destruct id; cbn [c_run_parser run_parser];
    first [ apply erase_c_parse_white | apply erase_c_parse_operator1 | apply erase_c_parse_operator2
          | apply erase_c_parse_string | apply erase_c_parse_hash | apply erase_c_parse_money
          | apply erase_c_parse_byte | apply erase_c_parse_dash | apply erase_c_parse_number
          | apply erase_c_parse_slash | apply erase_c_parse_other | apply erase_c_parse_var
          | apply erase_c_parse_word | apply erase_c_parse_bstring | apply erase_c_parse_estring
          | apply erase_c_parse_nqstring | apply erase_c_parse_qstring | apply erase_c_parse_ustring
          | apply erase_c_parse_xstring | apply erase_c_parse_bword | apply erase_c_parse_backslash
          | apply erase_c_parse_tick ].
Qed.
#[export] Hint Resolve erase_c_run_parser : cerase.

Lemma erase_c_tokenize_loop fuel : forall s t,
  erase (c_tokenize_loop fuel s t) = tokenize_loop fuel s t.
Proof.
  induction fuel as [|fuel IH]; intros s t; cbn [c_tokenize_loop tokenize_loop]; er.
Qed.
#[export] Hint Resolve erase_c_tokenize_loop : cerase.

Lemma erase_c_tokenize s cur : erase (c_tokenize s cur) = tokenize s cur.
Proof. unfold c_tokenize, tokenize. er. Qed.
#[export] Hint Resolve erase_c_tokenize : cerase.

Lemma erase_c_tokens_loop fuel : forall s acc,
  erase (c_tokens_loop fuel s acc) = tokens_loop fuel s acc.
Proof.
  induction fuel as [|fuel IH]; intros s acc; cbn [c_tokens_loop tokens_loop]; er.
Qed.

Theorem erase_c_tokens inp fl : erase (c_tokens inp fl) = tokens inp fl.
Proof. apply erase_c_tokens_loop. Qed.

(* ====================================================================== *)
(* Part (b): per-lexer cost bounds                                        *)
(* ====================================================================== *)

(* partial-correctness triple over the cost monad: if m returns (a, c) then Q a c.
   A run that does not return has cost_of = 0, so nothing is lost. *)
Definition cwlp {A} (m : cres A) (Q : A -> Z -> Prop) : Prop :=
  forall a c, m = Ok (a, c) -> Q a c.

Lemma cwlp_ok {A} (a : A) n (Q : A -> Z -> Prop) : Q a n -> cwlp (Ok (a, n)) Q.
Proof. intros H a' c E. inversion E; subst. exact H. Qed.

Lemma cwlp_ret {A} (a : A) (Q : A -> Z -> Prop) : Q a 0 -> cwlp (cret a) Q.
Proof. apply cwlp_ok. Qed.

Lemma cwlp_pure {A} (a : A) n (Q : A -> Z -> Prop) : Q a n -> cwlp (pure_c n a) Q.
Proof. apply cwlp_ok. Qed.

Lemma cwlp_tick n (Q : unit -> Z -> Prop) : Q tt n -> cwlp (tick n) Q.
Proof. apply cwlp_ok. Qed.

Lemma cwlp_fuel {A} (Q : A -> Z -> Prop) : cwlp OutOfFuel Q.
Proof. intros a c E. discriminate. Qed.

Lemma cwlp_bind {A B} (m : cres A) (k : A -> cres B) (Q : B -> Z -> Prop) :
  cwlp m (fun a c => cwlp (k a) (fun b c' => Q b (c + c'))) -> cwlp (cbind m k) Q.
Proof.
  intros H b c E. destruct m as [[a c1]| | |]; cbn in E; try discriminate.
  specialize (H a c1 eq_refl). cbv beta in H. destruct (k a) as [[b' c2]| | |] eqn:Ek; try discriminate.
  inversion E; subst. apply (H _ _ eq_refl).
Qed.

Lemma cwlp_conseq {A} (m : cres A) (Q Q' : A -> Z -> Prop) :
  cwlp m Q -> (forall a c, Q a c -> Q' a c) -> cwlp m Q'.
Proof. intros H HQ a c E. apply HQ, H, E. Qed.

Lemma cwlp_charge {A} n (m : res A) (Q : A -> Z -> Prop) :
  (forall a, m = Ok a -> Q a n) -> cwlp (charge n m) Q.
Proof. intros H a c E. destruct m; cbn in E; try discriminate. inversion E; subst. apply H. reflexivity. Qed.

Lemma cwlp_get site s i (Q : byte -> Z -> Prop) :
  (forall b, 0 <= i < len s -> nth_error s (Z.to_nat i) = Some b -> Q b 1) -> cwlp (c_get site s i) Q.
Proof. intros H. apply cwlp_charge. intros b E. apply get_Ok_inv in E. destruct E. auto. Qed.

Lemma cwlp_drop site s i (Q : bytes -> Z -> Prop) :
  (0 <= i <= len s -> Q (skipn (Z.to_nat i) s) 1) -> cwlp (c_drop site s i) Q.
Proof. intros H. apply cwlp_charge. intros b E. apply drop_Ok_inv in E. destruct E as [E ->]. auto. Qed.

Lemma cwlp_take site s j (Q : bytes -> Z -> Prop) :
  (0 <= j <= len s -> Q (firstn (Z.to_nat j) s) 1) -> cwlp (c_take site s j) Q.
Proof. intros H. apply cwlp_charge. intros b E. apply take_Ok_inv in E. destruct E as [E ->]. auto. Qed.

Lemma cwlp_slice site s i j (Q : bytes -> Z -> Prop) :
  (0 <= i <= j -> j <= len s -> Q (firstn (Z.to_nat (j - i)) (skipn (Z.to_nat i) s)) 1) ->
  cwlp (c_slice site s i j) Q.
Proof. intros H. apply cwlp_charge. intros b E. apply slice_Ok_inv in E. destruct E as (E1 & E2 & ->). auto. Qed.

Lemma span_n_Ok_inv site p : forall n s r, span_n site p s n = Ok r -> 0 <= r <= Z.of_nat n /\ r <= span p s.
Proof.
  induction n as [|n IH]; intros s r E; cbn [span_n] in E.
  - inversion E; subst. pose proof (span_range p s). lia.
  - destruct s as [|b s]; [discriminate|]. cbn [span]. destruct (p b).
    + destruct (span_n site p s n) as [r'| | |] eqn:E'; cbn [bind] in E; try discriminate.
      assert (Er : 1 + r' = r) by (injection E as E2; exact E2). subst r. apply IH in E'. lia.
    + assert (Er : 0 = r) by (injection E as E2; exact E2). subst r. lia.
Qed.

Lemma cwlp_span_len site p s n (Q : Z -> Z -> Prop) :
  (forall r, r <= n -> r <= span p s -> (0 <= n -> 0 <= r) -> Q r (r + 1)) ->
  cwlp (c_span_len site p s n) Q.
Proof.
  intros H r c E. unfold c_span_len in E. destruct (span_len site p s n) as [r'| | |] eqn:E'; try discriminate.
  inversion E; subst. apply H; unfold span_len in E'; destruct (n <? 0) eqn:En.
  1,3,5: inversion E'; subst; pose proof (span_range p s); lia.
  all: apply span_n_Ok_inv in E'; lia.
Qed.

Lemma cwlp_assign t ty p length value (Q : token -> Z -> Prop) :
  (forall tk, t_len tk = Z.min length 31 -> len (t_val tk) = t_len tk -> 0 <= t_len tk -> Q tk 1) ->
  cwlp (c_assign t ty p length value) Q.
Proof.
  intros H. unfold c_assign. change c_token_size with 32. change (32 - 1) with 31.
  apply cwlp_bind. apply cwlp_take. intros Hr. apply cwlp_ret. replace (1 + 0) with 1 by lia.
  apply H; cbn [t_len t_val]; [destruct (length <? 32) eqn:E; lia|rewrite len_firstn_le by lia; reflexivity|lia].
Qed.

(* the uniform per-byte constant of the lexers *)
Definition KL : Z := 36.

Ltac cw_prim_unfold :=
  unfold c_search_keyword, c_index_byte, c_index, c_contains, c_span, c_linear,
         c_is_double_delimiter_escaped,
         c_str_len_spn, c_str_len_cspn, c_at_, c_input_from.

Ltac cw_step :=
  lazymatch goal with
  | |- cwlp (cbind _ _) _ => apply cwlp_bind
  | |- cwlp (cret _) _ => apply cwlp_ret
  | |- cwlp (tick _) _ => apply cwlp_tick
  | |- cwlp (pure_c _ _) _ => apply cwlp_pure
  | |- cwlp (c_get _ _ _) _ => apply cwlp_get; intros ? ? ?
  | |- cwlp (c_drop _ _ _) _ => apply cwlp_drop; intros ?
  | |- cwlp (c_take _ _ _) _ => apply cwlp_take; intros ?
  | |- cwlp (c_slice _ _ _ _) _ => apply cwlp_slice; intros ? ?
  | |- cwlp (c_span_len _ _ _ _) _ => apply cwlp_span_len; intros ? ? ? ?
  | |- cwlp (c_assign _ _ _ _ _) _ => apply cwlp_assign; intros ? ? ? ?
  | |- cwlp (if ?c then _ else _) _ => destruct c eqn:?
  | |- cwlp (let '(_, _) := ?x in _) _ => destruct x
  | |- cwlp OutOfFuel _ => apply cwlp_fuel
  end.

Ltac cw_go := cw_prim_unfold; simp_st; repeat (cw_step; simp_st).

Ltac cw_leaf :=
  cbv beta; unfold KL, index_byte_cost, index_cost in *; cbv zeta; simp_st;
  note_facts; eval_lits; norm_len; split_ifs;
  repeat match goal with H : context [if ?c then _ else _] |- _ => destruct c eqn:? end;
  try lia.

(* the cost post-condition of a lexer *)
Definition lex_cost (s : sqlst) (probe K0 : Z) (r : sqlst * token * Z) (c : Z) : Prop :=
  let '(_, _, np) := r in c <= KL * (np - pos s) + KL * probe + K0.

Lemma c_parse_white_cost s t : cwlp (c_parse_white s t) (lex_cost s 0 1).
Proof. unfold c_parse_white, lex_cost. cw_go. cw_leaf. Qed.

Lemma c_parse_other_cost s t : cwlp (c_parse_other s t) (lex_cost s 0 3).
Proof. unfold c_parse_other, lex_cost. cw_go. cw_leaf. Qed.

Lemma c_parse_operator1_cost s t : cwlp (c_parse_operator1 s t) (lex_cost s 0 3).
Proof. unfold c_parse_operator1, lex_cost. cw_go. cw_leaf. Qed.

Lemma c_parse_byte_cost s t : cwlp (c_parse_byte s t) (lex_cost s 0 4).
Proof. unfold c_parse_byte, lex_cost. cw_go. cw_leaf. Qed.

Lemma c_parse_eol_comment_cost s t : cwlp (c_parse_eol_comment s t) (lex_cost s 0 4).
Proof. unfold c_parse_eol_comment, lex_cost. cw_go; cw_leaf. Qed.

(* ---------- parseStringCore: the backslash counts are over disjoint runs ---------- *)

Lemma tbc_nonneg l : 0 <= trailing_bs_count l.
Proof. induction l as [|b l IH]; cbn [trailing_bs_count]; [lia|]. destruct (beq b x5c); lia. Qed.

Lemma tbc_le_len l : trailing_bs_count l <= len l.
Proof.
  induction l as [|b l IH]; cbn [trailing_bs_count]; rewrite ?len_nil, ?len_cons; [lia|].
  pose proof (len_nonneg l). destruct (beq b x5c); lia.
Qed.

(* a byte that is not a backslash stops the count *)
Lemma tbc_stop a d b : beq d x5c = false -> trailing_bs_count (a ++ d :: b) <= len a.
Proof.
  intros Hd. induction a as [|x a IH]; cbn [app trailing_bs_count]; rewrite ?len_nil, ?len_cons.
  - rewrite Hd. lia.
  - pose proof (len_nonneg a). destruct (beq x x5c); lia.
Qed.

Lemma firstn_add {A} (a b : nat) (l : list A) :
  firstn (a + b) l = firstn a l ++ firstn b (skipn a l).
Proof.
  revert l. induction a as [|a IH]; intros l; cbn [Nat.add firstn skipn app]; [reflexivity|].
  destruct l as [|x l]; [destruct b; reflexivity|]. cbn [firstn skipn app]. f_equal. apply IH.
Qed.

Lemma skipn_add {A} (a b : nat) (l : list A) : skipn (a + b) l = skipn b (skipn a l).
Proof.
  revert l. induction a as [|a IH]; intros l; cbn [Nat.add skipn]; [reflexivity|].
  destruct l as [|x l]; [destruct b; reflexivity|]. apply IH.
Qed.

(* s[start:k'] = s[start:k] ++ s[k:k'] *)
Lemma slice_split (s : bytes) start k k' :
  0 <= start <= k -> k <= k' ->
  firstn (Z.to_nat (k' - start)) (skipn (Z.to_nat start) s) =
  firstn (Z.to_nat (k - start)) (skipn (Z.to_nat start) s) ++
  firstn (Z.to_nat (k' - k)) (skipn (Z.to_nat k) s).
Proof.
  intros H1 H2.
  replace (Z.to_nat (k' - start)) with (Z.to_nat (k - start) + Z.to_nat (k' - k))%nat by lia.
  rewrite firstn_add. f_equal. f_equal. rewrite <- skipn_add. f_equal. lia.
Qed.

(* the count taken at a candidate quote is bounded by the bytes skipped since
   the previous candidate: the previous candidate is a delimiter, not a backslash *)
Lemma bs_count_bound (s : bytes) start k ix delim :
  beq delim x5c = false -> 0 <= start <= k -> 0 <= ix -> k + ix <= len s ->
  (k = start \/ (start < k /\ nth_error s (Z.to_nat (k - 1)) = Some delim)) ->
  trailing_bs_count (rev (firstn (Z.to_nat (k + ix - start)) (skipn (Z.to_nat start) s))) <= ix.
Proof.
  intros Hd H1 H2 H3 [->|[Hk N]].
  - eapply Z.le_trans; [apply tbc_le_len|]. unfold len. rewrite rev_length. fold (len (firstn (Z.to_nat (start + ix - start)) (skipn (Z.to_nat start) s))).
    rewrite len_firstn. lia.
  - rewrite (slice_split s start k (k + ix)) by lia.
    rewrite (slice_split s start (k - 1) k) by lia.
    replace (Z.to_nat (k - (k - 1))) with 1%nat by lia.
    rewrite (skipn_nth_cons _ _ _ N). cbn [firstn].
    rewrite !rev_app_distr. cbn [rev app].
    eapply Z.le_trans; [apply tbc_stop; exact Hd|].
    unfold len. rewrite rev_length. fold (len (firstn (Z.to_nat (k + ix - k)) (skipn (Z.to_nat k) s))).
    rewrite len_firstn. lia.
Qed.

Definition core_inv (s : bytes) (start k : Z) (delim : byte) : Prop :=
  k = start \/ (start < k /\ nth_error s (Z.to_nat (k - 1)) = Some delim).

Lemma double_delim_second str d :
  nth_error str 0 = Some d -> is_double_delimiter_escaped str = true -> nth_error str 1 = Some d.
Proof.
  destruct str as [|a [|b r]]; cbn [is_double_delimiter_escaped nth_error]; intros H E; try discriminate.
  inversion H; subst. apply beq_eq in E. subst. reflexivity.
Qed.

Lemma c_string_core_loop_cost fuel : forall s start k delim,
  beq delim x5c = false -> 0 <= start <= k -> core_inv s start k delim ->
  cwlp (c_string_core_loop fuel s start k delim)
       (fun r c => match r with
                   | Some q => k <= q < len s /\ c <= 7 * (q - k) + 7
                   | None => k <= len s /\ c <= 7 * (len s - k) + 3
                   end).
Proof.
  induction fuel as [|fuel IH]; intros s start k delim Hd Hk Hinv; cbn [c_string_core_loop]; [apply cwlp_fuel|].
  apply cwlp_bind, cwlp_tick. apply cwlp_bind, cwlp_drop. intros Hk2.
  set (str := skipn (Z.to_nat k) s).
  assert (Lstr : len str = len s - k) by (unfold str; rewrite len_skipn_le; lia).
  apply cwlp_bind. unfold c_index_byte. apply cwlp_pure.
  destruct (index_byte_cases str delim) as [[Ix _]|[Ix Nx]].
  - rewrite Ix. cbn [Z.eqb]. apply cwlp_ret. unfold index_byte_cost. rewrite Ix. cbn [Z.ltb Z.compare]. lia.
  - set (ix := index_byte str delim) in *.
    destruct (ix =? -1) eqn:E; [lia|].
    assert (Nk : nth_error s (Z.to_nat (k + ix)) = Some delim).
    { unfold str in Nx. rewrite nth_error_skipn in Nx. replace (Z.to_nat (k + ix)) with (Z.to_nat k + Z.to_nat ix)%nat by lia. exact Nx. }
    apply cwlp_bind, cwlp_drop. intros _. apply cwlp_bind, cwlp_slice. intros _ _.
    apply cwlp_bind. rewrite c_is_backslash_escaped_eq. apply cwlp_ok.
    pose proof (bs_count_bound s start k ix delim Hd Hk ltac:(lia) ltac:(lia) Hinv) as Hb.
    pose proof (tbc_nonneg (rev (firstn (Z.to_nat (k + ix - start)) (skipn (Z.to_nat start) s)))) as Hb0.
    set (cnt := trailing_bs_count _) in *.
    assert (Hcost : index_byte_cost str delim = ix + 1).
    { unfold index_byte_cost. fold ix. destruct (ix <? 0) eqn:E2; lia. }
    rewrite Hcost.
    destruct (is_backslash_escaped _).
    + apply cwlp_bind, cwlp_drop. intros _.
      eapply cwlp_conseq.
      { apply IH; [exact Hd|lia|]. right. split; [lia|]. replace (k + ix + 1 - 1) with (k + ix) by lia. exact Nk. }
      intros [q|] c; cbv beta; lia.
    + apply cwlp_bind. unfold c_is_double_delimiter_escaped. apply cwlp_pure.
      destruct (is_double_delimiter_escaped _) eqn:D.
      * apply cwlp_bind, cwlp_drop. intros _.
        eapply cwlp_conseq.
        { apply IH; [exact Hd|lia|]. right. split; [lia|]. replace (k + ix + 2 - 1) with (k + ix + 1) by lia.
          apply (double_delim_second _ delim) in D; [|rewrite nth_error_skipn0; exact Nk].
          rewrite nth_error_skipn in D. replace (Z.to_nat (k + ix + 1)) with (Z.to_nat (k + ix) + 1)%nat by lia. exact D. }
        intros [q|] c; cbv beta; lia.
      * apply cwlp_ret. lia.
Qed.

Definition str_cost (lo : Z) (r : token * Z) (c : Z) : Prop :=
  let '(t, np) := r in
  lo <= np /\ c <= 7 * (np - lo) + 10 /\ 0 <= t_len t <= 31 /\ len (t_val t) = t_len t.

Lemma c_parse_string_core_cost t0 s p offset delim :
  beq delim x5c = false -> 0 <= p -> 0 <= offset ->
  cwlp (c_parse_string_core t0 s (len s) p offset delim) (str_cost (p + offset)).
Proof.
  intros Hd Hp Ho. unfold c_parse_string_core.
  apply cwlp_bind, cwlp_drop. intros Hr.
  apply cwlp_bind. eapply cwlp_conseq.
  { apply c_string_core_loop_cost; [exact Hd|lia|left; reflexivity]. }
  intros r c Hr2. apply cwlp_bind, cwlp_drop. intros _.
  destruct r as [q|]; cw_go; unfold str_cost; simp_st; lia.
Qed.

(* ---------- the remaining lexers ---------- *)

Ltac cw_call L :=
  eapply cwlp_conseq;
  [ apply L
  | let Hs := fresh "Hsub" in intros [[? ?] ?] ? Hs; unfold lex_cost in Hs |- *; cbv beta; simp_st ].

Ltac cw_sub := fail.

Ltac cw_run := cw_prim_unfold; simp_st; repeat (first [ cw_step | cw_sub ]; simp_st).

Ltac cw_sub ::=
  lazymatch goal with
  | |- cwlp (c_parse_eol_comment _ _) _ => cw_call c_parse_eol_comment_cost
  | |- cwlp (c_parse_operator1 _ _) _ => cw_call c_parse_operator1_cost
  end.

Lemma c_parse_hash_cost s t : cwlp (c_parse_hash s t) (lex_cost s 0 5).
Proof. unfold c_parse_hash, lex_cost. cw_run; cw_leaf. Qed.

Lemma c_parse_dash_cost s t : cwlp (c_parse_dash s t) (lex_cost s 0 9).
Proof. unfold c_parse_dash, lex_cost. cw_run; cw_leaf. Qed.

Lemma c_parse_backslash_cost s t : cwlp (c_parse_backslash s t) (lex_cost s 0 4).
Proof. unfold c_parse_backslash, lex_cost. cw_run; cw_leaf. Qed.

Lemma c_parse_bword_cost s t : cwlp (c_parse_bword s t) (lex_cost s 0 4).
Proof. unfold c_parse_bword, lex_cost. cw_run; cw_leaf. Qed.

Lemma c_parse_operator2_cost s t : cwlp (c_parse_operator2 s t) (lex_cost s 0 13).
Proof. unfold c_parse_operator2, lex_cost. cw_run; cw_leaf. Qed.

Lemma c_parse_slash_cost s t : lex_pre s -> cwlp (c_parse_slash s t) (lex_cost s 0 10).
Proof.
  intros Hpre. unfold lex_pre in Hpre. unfold c_parse_slash, c_is_mysql_comment, lex_cost. cw_run; cw_leaf.
Qed.

Ltac cw_str :=
  eapply cwlp_conseq;
  [ apply c_parse_string_core_cost; [ | simp_st; lia | lia ]
  | let Hs := fresh "Hstr" in intros [? ?] ? Hs; unfold str_cost in Hs; cbv beta; simp_st ].

Lemma c_parse_string_cost s t :
  (forall ch, nth_error (input s) (Z.to_nat (pos s)) = Some ch -> beq ch x5c = false) ->
  cwlp (c_parse_string s t) (lex_cost s 0 5).
Proof.
  intros Hq. unfold c_parse_string, lex_cost, slen. cw_run.
  cw_str; [apply Hq; assumption|]. cw_run. cw_leaf.
Qed.

Lemma c_word_split_loop_cost fuel : forall val i n,
  0 <= i <= n -> n <= 31 ->
  cwlp (c_word_split_loop fuel val i n)
       (fun r c => match r with
                   | Some (j, _) => i <= j < n /\ c <= 34 * (j - i) + 34
                   | None => c <= 34 * (n - i) + 1
                   end).
Proof.
  induction fuel as [|fuel IH]; intros val i n Hi Hn; cbn [c_word_split_loop].
  - destruct (i <? n) eqn:E; [apply cwlp_fuel|apply cwlp_ret; lia].
  - cw_run.
    all: try (norm_len; lia).
    all: (eapply cwlp_conseq; [apply IH; lia|]); intros [[j ch]|] c; cbv beta; norm_len; lia.
Qed.

Lemma c_parse_word_cost s t : lex_pre s -> cwlp (c_parse_word s t) (lex_cost s 0 71).
Proof.
  intros Hpre. unfold lex_pre in Hpre. unfold c_parse_word, lex_cost. change c_token_size with 32.
  cw_run.
  eapply cwlp_conseq; [apply c_word_split_loop_cost; lia|].
  intros [[i ch]|] c Hc; cbv beta.
  - cw_run. cw_leaf.
  - cw_run; cw_leaf.
Qed.

Ltac cw_sub ::=
  lazymatch goal with
  | |- cwlp (c_parse_eol_comment _ _) _ => cw_call c_parse_eol_comment_cost
  | |- cwlp (c_parse_operator1 _ _) _ => cw_call c_parse_operator1_cost
  | |- cwlp (c_parse_word _ _) _ =>
      eapply cwlp_conseq;
      [ apply c_parse_word_cost; unfold lex_pre; simp_st; lia
      | let Hs := fresh "Hsub" in intros [[? ?] ?] ? Hs; unfold lex_cost in Hs |- *; cbv beta; simp_st ]
  end.

Lemma c_parse_tick_cost s t : lex_pre s -> cwlp (c_parse_tick s t) (lex_cost s 0 45).
Proof.
  intros Hpre. unfold lex_pre in Hpre. unfold c_parse_tick, lex_cost, slen in *. cw_run.
  cw_str; [reflexivity|]. cw_run; cw_leaf.
Qed.

Lemma c_parse_estring_cost s t : lex_pre s -> cwlp (c_parse_estring s t) (lex_cost s 0 74).
Proof.
  intros Hpre. unfold lex_pre in Hpre. unfold c_parse_estring, lex_cost, slen in *. cw_run; try cw_leaf.
  cw_str; [reflexivity|]. cw_run; cw_leaf.
Qed.

Lemma c_parse_qstring_core_cost o s t :
  0 <= o <= 1 -> lex_pre s -> cwlp (c_parse_qstring_core o s t) (lex_cost s 0 76).
Proof.
  intros Ho Hpre. unfold lex_pre in Hpre. unfold c_parse_qstring_core, lex_cost, slen in *. cw_run; cw_leaf.
Qed.

Lemma c_parse_nqstring_cost s t : lex_pre s -> cwlp (c_parse_nqstring s t) (lex_cost s 0 78).
Proof.
  intros Hpre. pose proof Hpre as Hpre'. unfold lex_pre in Hpre'. unfold c_parse_nqstring, lex_cost, slen in *. cw_run.
  - cw_call c_parse_estring_cost; [exact Hpre|]. cw_leaf.
  - cw_call c_parse_qstring_core_cost; [lia|exact Hpre|]. cw_leaf.
  - cw_call c_parse_qstring_core_cost; [lia|exact Hpre|]. cw_leaf.
Qed.

Lemma c_parse_ustring_cost s t : lex_pre s -> cwlp (c_parse_ustring s t) (lex_cost s 0 75).
Proof.
  intros Hpre. unfold lex_pre in Hpre. unfold c_parse_ustring, lex_cost, slen in *. cw_run; try cw_leaf.
  eapply cwlp_conseq.
  { apply c_parse_string_cost. simp_st. intros ch Hch.
    match goal with H : nth_error (input s) (Z.to_nat (pos s + 2)) = Some ?b, E : beq ?b _ = true |- _ =>
      rewrite H in Hch; inversion Hch; subst; apply beq_eq in E; subst; reflexivity end. }
  intros [[? ?] ?] ? Hsub. unfold lex_cost in Hsub. cbv beta. simp_st. cw_run; cw_leaf.
Qed.

Lemma c_parse_var_cost s t : lex_pre s -> cwlp (c_parse_var s t) (lex_cost s 0 50).
Proof.
  intros Hpre. unfold lex_pre in Hpre. unfold c_parse_var, lex_cost, slen in *.
  cw_prim_unfold. simp_st.
  apply cwlp_bind, cwlp_tick. apply cwlp_bind.
  apply (cwlp_conseq _ (fun (two : bool) c => c <= 1 /\ (two = true -> pos s + 1 < len (input s)))).
  { cw_run; cbv beta; lia. }
  intros two c2 [Hc2 Htwo]. simp_st.
  set (p := if two then pos s + 1 + 1 else pos s + 1).
  assert (Hp : pos s < p <= len (input s)) by (unfold p; destruct two; [specialize (Htwo eq_refl)|]; lia).
  clearbody p. clear Htwo.
  cw_run.
  all: try (exfalso; lia).
  all: lazymatch goal with
       | |- cwlp (c_parse_tick _ _) _ =>
           cw_call c_parse_tick_cost; [unfold lex_pre; simp_st; lia|]; cw_run; cw_leaf
       | |- cwlp (c_parse_string _ _) _ =>
           eapply cwlp_conseq;
           [ apply c_parse_string_cost; simp_st; intros ch Hch;
             match goal with H : nth_error _ _ = Some ?b, Hc : nth_error _ _ = Some ch |- _ =>
               assert (ch = b) by congruence; subst ch;
               destruct (beq b x60) eqn:E1; [lia|];
               destruct (beq b b_byte_single || beq b b_byte_double) eqn:E2; [|lia];
               apply orb_true_iff in E2; destruct E2 as [E2|E2]; apply beq_eq in E2; subst; reflexivity
             end
           | intros [[? ?] ?] ? Hsub; unfold lex_cost in Hsub; cbv beta; simp_st; cw_run; cw_leaf ]
       | |- _ => cw_leaf
       end.
Qed.

(* ---------- the two lexers that may scan ahead without consuming ---------- *)

Definition money_letters : bytes := bs "abcdefghjiklmnopqrstuvwxyzABCDEFGHIJKLMNOPQRSTUVWXYZ".
Definition hex_digits : bytes := bs "0123456789abcdefABCDEF".

(* the run of letters after a '$' at the head of l *)
Definition probe_money (l : bytes) : Z :=
  match l with
  | b :: l' => if beq b x24 then span (fun b => mem b money_letters) l' else 0
  | [] => 0
  end.

(* the run of hex digits after  <any byte> '  at the head of l *)
Definition probe_xb (l : bytes) : Z :=
  match l with
  | _ :: b :: l'' => if beq b b_byte_single then span (fun b => mem b hex_digits) l'' else 0
  | _ => 0
  end.

Definition probe_at (l : bytes) : Z := probe_money l + probe_xb l.

Lemma probe_money_nonneg l : 0 <= probe_money l.
Proof.
  destruct l as [|b l]; cbn [probe_money]; [lia|]. destruct (beq b x24); [|lia].
  pose proof (span_range (fun b => mem b money_letters) l). lia.
Qed.

Lemma probe_xb_nonneg l : 0 <= probe_xb l.
Proof.
  destruct l as [|a [|b l]]; cbn [probe_xb]; try lia. destruct (beq b b_byte_single); [|lia].
  pose proof (span_range (fun b => mem b hex_digits) l). lia.
Qed.

Lemma span_mono (p q : byte -> bool) l : (forall b, p b = true -> q b = true) -> span p l <= span q l.
Proof.
  intros H. induction l as [|b l IH]; cbn [span]; [lia|].
  destruct (p b) eqn:E; [rewrite (H b E); lia|]. pose proof (span_range q l). destruct (q b); lia.
Qed.

Lemma to_nat_succ p : 0 <= p -> Z.to_nat (p + 1) = S (Z.to_nat p).
Proof. lia. Qed.

Lemma c_parse_money_cost s t :
  lex_pre s -> nth_error (input s) (Z.to_nat (pos s)) = Some x24 ->
  cwlp (c_parse_money s t) (lex_cost s (probe_money (skipn (Z.to_nat (pos s)) (input s))) 77).
Proof.
  intros Hpre N. unfold lex_pre in Hpre.
  assert (Hprobe : probe_money (skipn (Z.to_nat (pos s)) (input s)) =
                   span (fun b => mem b money_letters) (skipn (Z.to_nat (pos s + 1)) (input s))).
  { rewrite (skipn_nth_cons _ _ _ N). cbn [probe_money]. rewrite beq_refl. rewrite to_nat_succ by lia. reflexivity. }
  rewrite Hprobe. clear Hprobe. unfold money_letters.
  unfold c_parse_money, lex_cost, slen in *. cw_run; cw_leaf.
Qed.

Lemma c_parse_xb_string_cost digits s t c0 :
  lex_pre s -> (forall b, mem b digits = true -> mem b hex_digits = true) ->
  nth_error (input s) (Z.to_nat (pos s)) = Some c0 ->
  cwlp (c_parse_xb_string digits s t) (lex_cost s (probe_xb (skipn (Z.to_nat (pos s)) (input s))) 77).
Proof.
  intros Hpre Hsub N. unfold lex_pre in Hpre.
  pose proof (probe_xb_nonneg (skipn (Z.to_nat (pos s)) (input s))) as HP0.
  assert (HP : forall a, nth_error (input s) (Z.to_nat (pos s + 1)) = Some a -> negb (beq a b_byte_single) = false ->
               span (fun b => mem b digits) (skipn (Z.to_nat (pos s + 2)) (input s))
               <= probe_xb (skipn (Z.to_nat (pos s)) (input s))).
  { intros a Ha Hq. rewrite (skipn_nth_cons _ _ _ N). rewrite to_nat_succ in Ha by lia.
    rewrite (skipn_nth_cons _ _ _ Ha). cbn [probe_xb]. apply negb_false_iff in Hq. rewrite Hq.
    replace (Z.to_nat (pos s + 2)) with (S (S (Z.to_nat (pos s)))) by lia.
    apply span_mono. exact Hsub. }
  set (P := probe_xb _) in *. clearbody P.
  unfold c_parse_xb_string, lex_cost, slen in *.
  cw_run;
    try match goal with
        | H : nth_error (input s) (Z.to_nat (pos s + 1)) = Some ?b, E : negb (beq ?b b_byte_single) = false |- _ =>
            pose proof (HP b H E)
        end;
    cw_leaf.
Qed.

Lemma c_parse_number_cost s t : lex_pre s -> cwlp (c_parse_number s t) (lex_cost s 0 20).
Proof.
  intros Hpre. unfold lex_pre in Hpre. unfold c_parse_number, lex_cost, slen in *.
  cw_prim_unfold. simp_st.
  apply cwlp_bind, cwlp_tick. apply cwlp_bind, cwlp_get. intros c0 _ _.
  apply cwlp_bind.
  apply (cwlp_conseq _ (fun (_ : bytes) c => c <= 1)); [cw_run; cbv beta; lia|].
  intros digits cd Hcd. destruct digits as [|d0 ds].
  2:{ cw_run; cw_leaf. }
  apply cwlp_bind, cwlp_drop. intros Hp0.
  apply cwlp_bind, cwlp_pure.
  pose proof (span_range is_digit (skipn (Z.to_nat (pos s)) (input s))) as Hn0.
  set (n0 := span is_digit (skipn (Z.to_nat (pos s)) (input s))) in *. clearbody n0.
  apply cwlp_bind.
  apply (cwlp_conseq _ (fun (_ : bool) c => c <= 1)); [cw_run; cbv beta; lia|].
  intros dot cdot Hcdot. apply cwlp_bind.
  apply (cwlp_conseq _ (fun frac c => pos s + n0 <= frac /\ c <= frac - (pos s + n0) + 1)).
  { destruct dot; cw_run; cbv beta; note_facts; lia. }
  intros frac cfrac [Hfrac Hcfrac].
  destruct (dot && (frac - pos s =? 1)); [cw_run; cw_leaf|].
  apply cwlp_bind.
  apply (cwlp_conseq _ (fun (_ : bool) c => c <= 1)); [cw_run; cbv beta; lia|].
  intros isE cE HcE. apply cwlp_bind.
  apply (cwlp_conseq _ (fun (x : Z * bool) c => frac <= fst x /\ c <= fst x - frac + 3)).
  { destruct isE; [|cw_run; cbv beta; cbn [fst]; lia].
    apply cwlp_bind.
    apply (cwlp_conseq _ (fun (_ : bool) c => c <= 1)); [cw_run; cbv beta; lia|].
    intros sign cs Hcs. cw_run. cbv beta. cbn [fst]. note_facts. destruct sign; lia. }
  intros [p3 have_exp] c3 [Hp3 Hc3]. cbn [fst] in *.
  apply cwlp_bind.
  apply (cwlp_conseq _ (fun (_ : bool) c => c <= 1)); [cw_run; cbv beta; lia|].
  intros suffix csuf Hcsuf. apply cwlp_bind.
  apply (cwlp_conseq _ (fun p4 c => p3 <= p4 /\ c <= 1)); [cw_run; cbv beta; lia|].
  intros p4 c4 [Hp4 Hc4].
  cw_run; cw_leaf.
Qed.

(* ---------- the dispatched lexer ---------- *)

Lemma probe_at_nonneg l : 0 <= probe_at l.
Proof. unfold probe_at. pose proof (probe_money_nonneg l). pose proof (probe_xb_nonneg l). lia. Qed.

Lemma hex_sub_x b : mem b (bs "0123456789abcdefABCDEF") = true -> mem b hex_digits = true.
Proof. exact (fun H => H). Qed.

Lemma hex_sub_b b : mem b (bs "01") = true -> mem b hex_digits = true.
Proof.
  intros H.
  pose proof (byte_sweep (fun b => implb (mem b (bs "01")) (mem b hex_digits)) ltac:(vm_compute; reflexivity) b) as S.
  cbv beta in S. rewrite H in S. exact S.
Qed.

Theorem c_run_parser_cost s t ch :
  lex_pre s -> nth_error (input s) (Z.to_nat (pos s)) = Some ch ->
  cwlp (c_run_parser (dispatch ch) s t)
       (lex_cost s (probe_at (skipn (Z.to_nat (pos s)) (input s))) 80).
Proof.
  intros Hpre N. pose proof (dispatch_char ch) as K. unfold dispatch_char_ok in K.
  pose proof (probe_money_nonneg (skipn (Z.to_nat (pos s)) (input s))) as HM.
  pose proof (probe_xb_nonneg (skipn (Z.to_nat (pos s)) (input s))) as HX.
  unfold probe_at.
  set (PM := probe_money _) in *. set (PX := probe_xb _) in *.
  destruct (dispatch ch) eqn:D; cbn [c_run_parser]; unfold c_parse_xstring, c_parse_bstring, c_parse_qstring.
  all: eapply cwlp_conseq;
    [ first [ apply c_parse_white_cost | apply c_parse_operator1_cost | apply c_parse_operator2_cost
            | apply c_parse_string_cost | apply c_parse_hash_cost
            | apply c_parse_money_cost | apply c_parse_byte_cost
            | apply c_parse_dash_cost | apply c_parse_number_cost; exact Hpre
            | apply c_parse_slash_cost; exact Hpre | apply c_parse_other_cost
            | apply c_parse_var_cost; exact Hpre | apply c_parse_word_cost; exact Hpre
            | eapply c_parse_xb_string_cost
            | apply c_parse_estring_cost; exact Hpre | apply c_parse_nqstring_cost; exact Hpre
            | apply c_parse_qstring_core_cost; [lia|exact Hpre] | apply c_parse_ustring_cost; exact Hpre
            | apply c_parse_bword_cost | apply c_parse_backslash_cost
            | apply c_parse_tick_cost; exact Hpre ]
    | try (intros [[? ?] ?] ? Hc; unfold lex_cost, KL in *; fold PM; fold PX; lia) ].
  all: try exact Hpre.
  all: try exact N.
  all: try exact hex_sub_b.
  all: try exact hex_sub_x.
  - intros ch0 N0. assert (ch0 = ch) by congruence. subst ch0.
    apply orb_true_iff in K. destruct K as [K|K]; apply beq_eq in K; subst ch; reflexivity.
  - apply beq_eq in K. subst ch. exact N.
Qed.

(* ====================================================================== *)
(* Part (c): the scan as a whole                                          *)
(* ====================================================================== *)

(* the potential: every position pays once for the look-ahead a call starting
   there may do *)
Fixpoint phi (l : bytes) : Z :=
  match l with
  | [] => 0
  | _ :: l' => probe_at l + phi l'
  end.

Fixpoint sum_m (l : bytes) : Z :=
  match l with [] => 0 | _ :: l' => probe_money l + sum_m l' end.
Fixpoint sum_x (l : bytes) : Z :=
  match l with [] => 0 | _ :: l' => probe_xb l + sum_x l' end.

Lemma phi_split l : phi l = sum_m l + sum_x l.
Proof. induction l as [|b l IH]; cbn [phi sum_m sum_x]; [reflexivity|]. unfold probe_at. lia. Qed.

Lemma phi_nonneg l : 0 <= phi l.
Proof. induction l as [|b l IH]; cbn [phi]; [lia|]. pose proof (probe_at_nonneg (b :: l)). lia. Qed.

(* the letter runs that follow distinct '$' are disjoint *)
Lemma sum_m_bound l : sum_m l <= len l - span (fun b => mem b money_letters) l.
Proof.
  induction l as [|b l IH]; cbn [sum_m probe_money span]; rewrite ?len_nil, ?len_cons; [lia|].
  pose proof (span_range (fun b => mem b money_letters) l) as R.
  destruct (beq b x24) eqn:E.
  - apply beq_eq in E. subst b. replace (mem x24 money_letters) with false by (vm_compute; reflexivity). lia.
  - destruct (mem b money_letters); lia.
Qed.

(* the hex runs that follow distinct quotes are disjoint *)
Lemma sum_x_bound l : forall c, sum_x (c :: l) <= len l - span (fun b => mem b hex_digits) l.
Proof.
  induction l as [|b l IH]; intros c.
  - cbn. lia.
  - specialize (IH b). cbn [sum_x probe_xb] in *. cbn [span]. rewrite len_cons.
    pose proof (span_range (fun b => mem b hex_digits) l) as R.
    destruct (beq b b_byte_single) eqn:E.
    + apply beq_eq in E. subst b. replace (mem b_byte_single hex_digits) with false by (vm_compute; reflexivity). lia.
    + destruct (mem b hex_digits); lia.
Qed.

Lemma phi_bound l : phi l <= 2 * len l.
Proof.
  rewrite phi_split. pose proof (sum_m_bound l). pose proof (span_range (fun b => mem b money_letters) l).
  destruct l as [|c l]; [cbn; lia|]. pose proof (sum_x_bound l c).
  pose proof (span_range (fun b => mem b hex_digits) l). rewrite len_cons in *. lia.
Qed.

Lemma phi_skipn_le n : forall l, phi (skipn n l) <= phi l.
Proof.
  induction n as [|n IH]; intros l; [cbn [skipn]; lia|].
  destruct l as [|b l]; [cbn; lia|]. cbn [skipn phi]. specialize (IH l).
  pose proof (probe_at_nonneg (b :: l)). lia.
Qed.

Lemma phi_advance inp p np :
  0 <= p < len inp -> p < np ->
  probe_at (skipn (Z.to_nat p) inp) + phi (skipn (Z.to_nat np) inp) <= phi (skipn (Z.to_nat p) inp).
Proof.
  intros Hp Hnp. destruct (get_ok "x" inp p Hp) as [b [_ N]].
  rewrite (skipn_nth_cons _ _ _ N) at 2. cbn [phi]. rewrite <- (skipn_nth_cons _ _ _ N).
  replace (Z.to_nat np) with (S (Z.to_nat p) + Z.to_nat (np - p - 1))%nat by lia.
  rewrite skipn_add. pose proof (phi_skipn_le (Z.to_nat (np - p - 1)) (skipn (S (Z.to_nat p)) inp)). lia.
Qed.

Lemma cwlp_with_wp {A} (m : cres A) (m' : res A) (P : A -> Prop) (Q : A -> Z -> Prop) :
  erase m = m' -> wp m' P -> cwlp m Q -> cwlp m (fun a c => P a /\ Q a c).
Proof.
  intros E W H a c Ea. split; [|apply H; exact Ea].
  rewrite Ea in E. cbn in E. subst m'. exact W.
Qed.

Definition PHI (s : sqlst) (p : Z) : Z := KL * phi (skipn (Z.to_nat p) (input s)).

Lemma c_tokenize_loop_cost fuel : forall s t,
  st_wf s ->
  cwlp (c_tokenize_loop fuel s t)
       (fun r c => c + PHI s (pos (snd r)) <= 118 * (pos (snd r) - pos s) + PHI s (pos s) + 1).
Proof.
  induction fuel as [|fuel IH]; intros s t Hwf; unfold st_wf in Hwf; cbn [c_tokenize_loop].
  - destruct (pos s <? slen s); [apply cwlp_fuel|apply cwlp_ret; cbn [snd]; lia].
  - apply cwlp_bind, cwlp_tick.
    destruct (pos s <? slen s) eqn:E; [|apply cwlp_ret; cbn [snd]; lia].
    apply cwlp_bind. unfold c_at_. apply cwlp_get. intros ch Hr Hch.
    apply cwlp_bind.
    assert (Hpre : lex_pre s) by (unfold lex_pre; lia).
    eapply cwlp_conseq.
    { eapply cwlp_with_wp; [apply erase_c_run_parser|apply (run_parser_spec s t ch Hpre Hch)|apply (c_run_parser_cost s t ch Hpre Hch)]. }
    intros [[s1 t1] np] c1 [(A & B & C & D & F & G) Hc1]. unfold lex_cost in Hc1.
    pose proof (phi_advance (input s) (pos s) np ltac:(unfold slen in *; lia) ltac:(lia)) as Hadv.
    destruct (negb (beq (t_cat t1) x00)).
    + apply cwlp_ret. unfold bump_tokens, set_stats, set_pos, PHI, KL in *. cbn [snd pos input]. lia.
    + eapply cwlp_conseq.
      { apply IH. unfold st_wf, set_pos, slen in *. cbn [pos input]. rewrite A. lia. }
      intros [[more t2] s2] c2. unfold PHI, set_pos, KL in *. cbn [snd pos input]. rewrite A. lia.
Qed.

Lemma flag2delimiter_not_bs fl : beq (flag2delimiter fl) x5c = false.
Proof. unfold flag2delimiter. destruct (negb _); [reflexivity|]. destruct (negb _); reflexivity. Qed.

Lemma c_tokenize_cost s cur :
  st_wf s ->
  cwlp (c_tokenize s cur)
       (fun r c => c + PHI s (pos (snd r)) <= 118 * (pos (snd r) - pos s) + PHI s (pos s) + 10).
Proof.
  intros Hwf. unfold c_tokenize.
  destruct (slen s =? 0); [apply cwlp_ret; cbn [snd]; lia|].
  destruct (_ && _) eqn:Eq.
  - apply andb_true_iff in Eq. destruct Eq as [Ep _].
    apply cwlp_bind. unfold slen. eapply cwlp_conseq.
    { apply c_parse_string_core_cost; [apply flag2delimiter_not_bs|lia|lia]. }
    intros [t np] c (H1 & H2 & _). apply cwlp_ret. unfold bump_tokens, set_stats, set_pos, PHI, KL. cbn [snd pos input].
    replace (pos s) with 0 by lia. change (Z.to_nat 0) with 0%nat. cbn [skipn].
    pose proof (phi_skipn_le (Z.to_nat np) (input s)). lia.
  - eapply cwlp_conseq; [apply c_tokenize_loop_cost; exact Hwf|]. intros r c H. cbv beta in *. lia.
Qed.

Lemma c_tokens_loop_cost fuel : forall s acc,
  st_wf s ->
  cwlp (c_tokens_loop fuel s acc)
       (fun _ c => c <= 129 * (slen s - pos s) + PHI s (pos s) + 11).
Proof.
  induction fuel as [|fuel IH]; intros s acc Hwf; cbn [c_tokens_loop]; [apply cwlp_fuel|].
  apply cwlp_bind, cwlp_tick. apply cwlp_bind.
  eapply cwlp_conseq.
  { eapply cwlp_with_wp; [apply erase_c_tokenize|apply (tokenize_spec s tok0 Hwf)|apply (c_tokenize_cost s tok0 Hwf)]. }
  intros [[more t] s1] c1 [(A & B & C & D & E & F) Hc1]. cbn [snd] in Hc1.
  pose proof (phi_nonneg (skipn (Z.to_nat (pos s1)) (input s))) as Hnn.
  destruct more.
  - destruct (E eq_refl) as (E1 & _).
    eapply cwlp_conseq.
    { apply IH. unfold st_wf, slen in *. rewrite A. lia. }
    intros r c2. unfold PHI, slen, KL in *. rewrite A. lia.
  - apply cwlp_ret. unfold PHI, KL in *. lia.
Qed.

(* the SQL scan is linear in the length of the input *)
Theorem c_tokens_linear inp fl : cost_of (c_tokens inp fl) <= 201 * len inp + 11.
Proof.
  pose proof (len_nonneg inp) as Hlen.
  destruct (c_tokens inp fl) as [[r c]| | |] eqn:E; cbn [cost_of]; try lia.
  unfold c_tokens in E.
  pose proof (c_tokens_loop_cost _ _ _ (sqli_init_wf inp fl) _ _ E) as H. cbv beta in H.
  unfold PHI, KL, slen, sqli_init in H. cbn [input pos] in H. change (Z.to_nat 0) with 0%nat in H. cbn [skipn] in H.
  pose proof (phi_bound inp). lia.
Qed.

(* ---------- the same facts without the triple notation ---------- *)

Lemma erase_Ok_inv {A} (m : cres A) a : erase m = Ok a -> exists c, m = Ok (a, c).
Proof. destruct m as [[a' c]| | |]; cbn; intros H; try discriminate. inversion H; subst. eauto. Qed.

(* the instrumented scan returns exactly what the model returns, and the number of steps
   it reports is at most 201 * len + 11 *)
Theorem c_tokens_total_linear inp fl :
  exists l s c, tokens inp fl = Ok (l, s) /\ c_tokens inp fl = Ok ((l, s), c) /\
                c <= 201 * len inp + 11.
Proof.
  destruct (tokens_spec inp fl) as (l & s & E & _).
  pose proof (erase_c_tokens inp fl) as Er. rewrite E in Er.
  destruct (erase_Ok_inv _ _ Er) as [c Ec]. exists l, s, c. split; [exact E|]. split; [exact Ec|].
  pose proof (c_tokens_linear inp fl) as L. rewrite Ec in L. exact L.
Qed.

(* every lexer, in the shape  cost <= K * consumed + K * probe + K0 *)
Theorem c_run_parser_bound s t ch s' t' np c :
  lex_pre s -> nth_error (input s) (Z.to_nat (pos s)) = Some ch ->
  c_run_parser (dispatch ch) s t = Ok ((s', t', np), c) ->
  pos s < np <= slen s /\
  c <= 36 * (np - pos s) + 36 * probe_at (skipn (Z.to_nat (pos s)) (input s)) + 80.
Proof.
  intros Hpre N E. split.
  - pose proof (erase_c_run_parser (dispatch ch) s t) as Er. rewrite E in Er. cbn [erase] in Er.
    pose proof (run_parser_spec s t ch Hpre N) as W. rewrite <- Er in W. cbn in W. tauto.
  - exact (c_run_parser_cost s t ch Hpre N _ _ E).
Qed.

Theorem c_parse_string_core_bound t0 s p offset delim t np c :
  delim <> x5c -> 0 <= p -> 0 <= offset ->
  c_parse_string_core t0 s (len s) p offset delim = Ok ((t, np), c) ->
  p + offset <= np /\ c <= 7 * (np - (p + offset)) + 10.
Proof.
  intros Hd Hp Ho E. apply beq_neq in Hd.
  pose proof (c_parse_string_core_cost t0 s p offset delim Hd Hp Ho _ _ E) as H. cbn in H. tauto.
Qed.

(* the two token predicates used by the folding pass: constant cost *)
Lemma c_is_unary_op_cost t : cwlp (c_is_unary_op t) (fun _ c => c <= 5).
Proof. unfold c_is_unary_op. cw_run; cw_leaf. Qed.

Lemma c_is_arithmetic_op_cost t : cwlp (c_is_arithmetic_op t) (fun _ c => c <= 1).
Proof. unfold c_is_arithmetic_op. cw_run; cw_leaf. Qed.
