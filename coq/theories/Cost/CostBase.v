(* CostBase: the cost semantics used for C09.

   A cost-instrumented computation returns its value together with the number
   of elementary steps it took.  The unit of cost is:
     - 1 per byte examined by a scan primitive (strings.IndexByte, strings.Index,
       strings.Contains, strings.HasPrefix, the strLenSpn / strLenCSpn loops, the
       digit loops, strings.ToUpper / ToLower / ReplaceAll / TrimLeftFunc, string
       comparison, hashing a map key);
     - 1 per checked index / slice expression (Go slices share their backing
       array: s[i:j] is O(1));
     - 1 per iteration of every loop and per call of every lexer / state function /
       folding pass, charged by explicit `tick`s in the instrumented functions.
   The instrumented model (Cost/*.v) mirrors the model line by line; an erasure
   theorem per function says that forgetting the cost gives back the model's
   result, so a bound on the cost is a bound on the work of the model itself.
   Definitions only. *)
From Coq Require Import List ZArith String Bool.
From Coq.Strings Require Import Byte.
From LI Require Import Prelude Base.
Import ListNotations.
Local Open Scope Z_scope.

Definition cres (A : Type) : Type := res (A * Z).

Definition cret {A} (a : A) : cres A := Ok (a, 0).

Definition cbind {A B} (m : cres A) (k : A -> cres B) : cres B :=
  match m with
  | Ok (a, c) => match k a with
                 | Ok (b, c') => Ok (b, c + c')
                 | Panic s => Panic s
                 | OutOfFuel => OutOfFuel
                 | StackOverflow => StackOverflow
                 end
  | Panic s => Panic s
  | OutOfFuel => OutOfFuel
  | StackOverflow => StackOverflow
  end.

Declare Scope cost_scope.
Delimit Scope cost_scope with cost.
Notation "x <-- m ;; k" := (cbind m (fun x => k))
  (at level 61, m at next level, right associativity) : cost_scope.
Notation "' pat <-- m ;; k" := (cbind m (fun x => match x with pat => k end))
  (at level 61, pat pattern, m at next level, right associativity) : cost_scope.

(* charge n steps *)
Definition tick (n : Z) : cres unit := Ok (tt, n).

(* a model computation of known cost *)
Definition charge {A} (n : Z) (m : res A) : cres A :=
  match m with
  | Ok a => Ok (a, n)
  | Panic s => Panic s
  | OutOfFuel => OutOfFuel
  | StackOverflow => StackOverflow
  end.

(* a pure value of known cost *)
Definition pure_c {A} (n : Z) (a : A) : cres A := Ok (a, n).

(* forget the cost *)
Definition erase {A} (m : cres A) : res A :=
  match m with
  | Ok (a, _) => Ok a
  | Panic s => Panic s
  | OutOfFuel => OutOfFuel
  | StackOverflow => StackOverflow
  end.

Definition cost_of {A} (m : cres A) : Z :=
  match m with Ok (_, c) => c | _ => 0 end.

(* ---------- instrumented primitives ---------- *)

Definition c_get (site : string) (s : bytes) (i : Z) : cres byte := charge 1 (get site s i).
Definition c_drop (site : string) (s : bytes) (i : Z) : cres bytes := charge 1 (drop site s i).
Definition c_take (site : string) (s : bytes) (j : Z) : cres bytes := charge 1 (take site s j).
Definition c_slice (site : string) (s : bytes) (i j : Z) : cres bytes := charge 1 (slice site s i j).

(* strings.IndexByte examines the bytes up to and including the hit, or all of them *)
Definition index_byte_cost (s : bytes) (c : byte) : Z :=
  let r := index_byte s c in if r <? 0 then len s + 1 else r + 1.
Definition c_index_byte (s : bytes) (c : byte) : cres Z := pure_c (index_byte_cost s c) (index_byte s c).

(* strings.Index / Contains: at most the bytes up to the end of the first match, or all of them
   (times a constant: the needle has bounded length everywhere it is used; the needle's
   length is charged explicitly) *)
Definition index_cost (s sep : bytes) : Z :=
  let r := index s sep in (if r <? 0 then len s else r) + len sep + 1.
Definition c_index (s sep : bytes) : cres Z := pure_c (index_cost s sep) (index s sep).
Definition c_contains (s sep : bytes) : cres bool := pure_c (index_cost s sep) (contains s sep).

(* a scan loop over a prefix satisfying p: the bytes of the run plus the one that stops it *)
Definition c_span (p : byte -> bool) (s : bytes) : cres Z := pure_c (span p s + 1) (span p s).
Definition c_span_len (site : string) (p : byte -> bool) (s : bytes) (length : Z) : cres Z :=
  match span_len site p s length with
  | Ok r => Ok (r, r + 1)
  | Panic x => Panic x
  | OutOfFuel => OutOfFuel
  | StackOverflow => StackOverflow
  end.

(* whole-string passes: upper / lower casing, NUL removal, comparison, hashing a key *)
Definition c_linear {A} (s : bytes) (a : A) : cres A := pure_c (len s + 1) a.
