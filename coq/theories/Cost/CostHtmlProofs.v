(* CostHtmlProofs: erasure and linear cost bounds for the instrumented HTML5
   tokenizer (CostHtml5.v) and XSS classifier (CostXss.v). *)
From Coq Require Import List ZArith String Bool Lia ZifyBool.
From Coq.Strings Require Import Byte.
From LI Require Import Prelude Base Html5 Xss Proofs.BaseFacts Proofs.Wp Proofs.H5Spec.
From LI Require Import Cost.CostBase Cost.CostHtml5 Cost.CostXss.
From LIGen Require Import Tables Consts.
Import ListNotations.
Local Open Scope Z_scope.

(* ====================================================================== *)
(* Part (a): erasure                                                       *)
(* ====================================================================== *)

Lemma erase_cret {A} (a : A) : erase (cret a) = Ok a.
Proof. reflexivity. Qed.

Lemma erase_bind_ext {A B} (m : cres A) (k : A -> cres B) m' k' :
  erase m = m' -> (forall a, erase (k a) = k' a) -> erase (cbind m k) = bind m' k'.
Proof.
  intros <- H. destruct m as [[a c]| | |]; cbn; try reflexivity.
  rewrite <- H. destruct (k a) as [[b c']| | |]; reflexivity.
Qed.

(* the first computation is a value of the model (a pure scan, a tick, a pure classifier) *)
Lemma erase_bind_val {A B} (m : cres A) (k : A -> cres B) a :
  erase m = Ok a -> erase (cbind m k) = erase (k a).
Proof.
  intros H. destruct m as [[a' c]| | |]; cbn in H; try discriminate. inversion H; subst a'.
  cbn. destruct (k a) as [[b c']| | |]; reflexivity.
Qed.

Lemma erase_Ok_inv {A} (m : cres A) a : erase m = Ok a -> exists c, m = Ok (a, c).
Proof. destruct m as [[a' c]| | |]; cbn; intros H; try discriminate. inversion H. eauto. Qed.

Lemma erase_charge {A} n (m : res A) : erase (charge n m) = m.
Proof. destruct m; reflexivity. Qed.

Lemma erase_get site s i : erase (c_get site s i) = get site s i.
Proof. apply erase_charge. Qed.
Lemma erase_drop site s i : erase (c_drop site s i) = drop site s i.
Proof. apply erase_charge. Qed.
Lemma erase_take site s i : erase (c_take site s i) = take site s i.
Proof. apply erase_charge. Qed.
Lemma erase_slice site s i j : erase (c_slice site s i j) = slice site s i j.
Proof. apply erase_charge. Qed.

Create HintDb er.
#[local] Hint Resolve erase_get erase_drop erase_take erase_slice : er.

Ltac er_side := first [ solve [eauto with er] | reflexivity ].

Ltac er_step :=
  cbv zeta;
  lazymatch goal with
  | |- erase (cbind ?m ?k) = _ =>
      first [ erewrite (erase_bind_val m k) by er_side
            | apply erase_bind_ext; [ | intros ? ] ]
  | |- erase (if ?c then _ else _) = _ => destruct c
  | |- erase (match ?x with _ => _ end) = _ => destruct x
  | |- erase (cret _) = _ => reflexivity
  | |- _ => er_side
  end.

Ltac er := repeat er_step.

Lemma erase_emit site h off tlen ttype npos nstate close :
  erase (c_emit site h off tlen ttype npos nstate close) = emit site h off tlen ttype npos nstate close.
Proof. unfold c_emit, emit. er. Qed.
#[local] Hint Resolve erase_emit : er.

Lemma erase_skip_white h : erase (c_skip_white h) = skip_white h.
Proof. unfold c_skip_white, skip_white. er. Qed.
#[local] Hint Resolve erase_skip_white : er.

Lemma erase_bogus2_loop fuel : forall h p, erase (c_bogus2_loop fuel h p) = bogus2_loop fuel h p.
Proof.
  induction fuel as [|fuel IH]; intros h p; [reflexivity|].
  cbn [c_bogus2_loop bogus2_loop]. er.
Qed.

Lemma erase_comment_loop fuel : forall h p, erase (c_comment_loop fuel h p) = comment_loop fuel h p.
Proof.
  induction fuel as [|fuel IH]; intros h p; [reflexivity|].
  cbn [c_comment_loop comment_loop]. er.
Qed.

Lemma erase_cdata_loop fuel : forall h p, erase (c_cdata_loop fuel h p) = cdata_loop fuel h p.
Proof.
  induction fuel as [|fuel IH]; intros h p; [reflexivity|].
  cbn [c_cdata_loop cdata_loop]. er.
Qed.

Lemma erase_before_attr_name_loop fuel : forall h,
  erase (c_before_attr_name_loop fuel h) = before_attr_name_loop fuel h.
Proof.
  induction fuel as [|fuel IH]; intros h; [reflexivity|].
  cbn [c_before_attr_name_loop before_attr_name_loop]. er.
Qed.
#[local] Hint Resolve erase_bogus2_loop erase_comment_loop erase_cdata_loop erase_before_attr_name_loop : er.

Lemma erase_h5_call depth : forall f h, erase (c_h5_call depth f h) = h5_call depth f h.
Proof.
  induction depth as [|d IH]; intros f h; [reflexivity|].
  cbn [c_h5_call h5_call]. destruct f; er.
Qed.

Lemma erase_h5_next h : erase (c_h5_next h) = h5_next h.
Proof. apply erase_h5_call. Qed.
#[local] Hint Resolve erase_h5_call erase_h5_next : er.

Lemma erase_h5_tokens_loop fuel : forall h acc,
  erase (c_h5_tokens_loop fuel h acc) = h5_tokens_loop fuel h acc.
Proof.
  induction fuel as [|fuel IH]; intros h acc; [reflexivity|].
  cbn [c_h5_tokens_loop h5_tokens_loop]. er.
Qed.

Lemma erase_h5_tokens s fl : erase (c_h5_tokens s fl) = h5_tokens s fl.
Proof. apply erase_h5_tokens_loop. Qed.

(* ---------- Xss ---------- *)

Lemma erase_upper_without_nulls s : erase (c_upper_without_nulls s) = Ok (upper_without_nulls s).
Proof. reflexivity. Qed.
#[local] Hint Resolve erase_upper_without_nulls : er.

Lemma erase_existsb_eq u l : erase (c_existsb_eq u l) = Ok (existsb (bytes_eqb u) l).
Proof.
  induction l as [|k l IH]; [reflexivity|]. cbn [c_existsb_eq existsb].
  er.
Qed.
#[local] Hint Resolve erase_existsb_eq : er.

Lemma erase_is_black_tag s : erase (c_is_black_tag s) = Ok (is_black_tag s).
Proof.
  unfold c_is_black_tag, is_black_tag. er.
Qed.

Lemma erase_assoc_type u l : erase (c_assoc_type u l) = Ok (assoc_type u l).
Proof.
  induction l as [|[k v] l IH]; [reflexivity|]. cbn [c_assoc_type assoc_type].
  er.
Qed.
#[local] Hint Resolve erase_is_black_tag erase_assoc_type : er.

Lemma erase_is_black_attr s : erase (c_is_black_attr s) = Ok (is_black_attr s).
Proof.
  unfold c_is_black_attr, is_black_attr. er.
  destruct (erase_Ok_inv _ _ (erase_assoc_type (skipn 2 b) black_events)) as [c1 E1].
  destruct (erase_Ok_inv _ _ (erase_assoc_type b blacks)) as [c2 E2].
  rewrite E1, E2.
  destruct (5 <=? len b); destruct (bytes_eqb b (bs "XMLNS")); destruct (bytes_eqb b (bs "XLINK"));
    destruct (bytes_eqb (firstn 2 b) (bs "ON")); destruct (assoc_type (skipn 2 b) black_events);
    destruct (assoc_type b blacks); reflexivity.
Qed.
#[local] Hint Resolve erase_is_black_attr : er.

Lemma erase_hex_val site ch : erase (c_hex_val site ch) = hex_val site ch.
Proof. apply erase_charge. Qed.
#[local] Hint Resolve erase_hex_val : er.

Lemma erase_decode_hex_loop fuel : forall s i val,
  erase (c_decode_hex_loop fuel s i val) = decode_hex_loop fuel s i val.
Proof.
  induction fuel as [|fuel IH]; intros s i val; cbn [c_decode_hex_loop decode_hex_loop]; er.
Qed.

Lemma erase_decode_dec_loop fuel : forall s i val,
  erase (c_decode_dec_loop fuel s i val) = decode_dec_loop fuel s i val.
Proof.
  induction fuel as [|fuel IH]; intros s i val; cbn [c_decode_dec_loop decode_dec_loop]; er.
Qed.
#[local] Hint Resolve erase_decode_hex_loop erase_decode_dec_loop : er.

Lemma erase_html_decode_byte_at s : erase (c_html_decode_byte_at s) = html_decode_byte_at s.
Proof. unfold c_html_decode_byte_at, html_decode_byte_at. er. Qed.
#[local] Hint Resolve erase_html_decode_byte_at : er.

Lemma erase_starts_with_loop fuel : forall rest first acc,
  erase (c_starts_with_loop fuel rest first acc) = starts_with_loop fuel rest first acc.
Proof.
  induction fuel as [|fuel IH]; intros rest first acc; cbn [c_starts_with_loop starts_with_loop]; er.
Qed.
#[local] Hint Resolve erase_starts_with_loop : er.

Lemma erase_html_encode_starts_with a b :
  erase (c_html_encode_starts_with a b) = html_encode_starts_with a b.
Proof. unfold c_html_encode_starts_with, html_encode_starts_with. er. Qed.
#[local] Hint Resolve erase_html_encode_starts_with : er.

Lemma erase_trim_left_junk s : erase (c_trim_left_junk s) = Ok (trim_left_junk s).
Proof.
  induction s as [|b s IH]; [reflexivity|]. cbn [c_trim_left_junk trim_left_junk]. er.
Qed.
#[local] Hint Resolve erase_trim_left_junk : er.

Lemma erase_any_scheme urls str : erase (c_any_scheme urls str) = any_scheme urls str.
Proof.
  induction urls as [|u urls IH]; [reflexivity|]. cbn [c_any_scheme any_scheme]. er.
Qed.
#[local] Hint Resolve erase_any_scheme : er.

Lemma erase_is_black_url s : erase (c_is_black_url s) = is_black_url s.
Proof. unfold c_is_black_url, is_black_url. er. Qed.
#[local] Hint Resolve erase_is_black_url : er.

Lemma erase_classify h attr : erase (c_classify h attr) = classify h attr.
Proof. unfold c_classify, classify. er. Qed.
#[local] Hint Resolve erase_classify : er.

Lemma erase_xss_loop fuel : forall h attr, erase (c_xss_loop fuel h attr) = xss_loop fuel h attr.
Proof.
  induction fuel as [|fuel IH]; intros h attr; [reflexivity|].
  cbn [c_xss_loop xss_loop]. er.
Qed.

Lemma erase_xss_ctx s fl : erase (c_xss_ctx s fl) = xss_ctx s fl.
Proof. apply erase_xss_loop. Qed.
#[local] Hint Resolve erase_xss_ctx : er.

Lemma erase_is_xss s : erase (c_is_xss s) = is_xss s.
Proof. unfold c_is_xss, is_xss. er. Qed.

(* ====================================================================== *)
(* Part (b): a partial-correctness logic with costs                        *)
(* ====================================================================== *)

(* cwlp m Q: if m returns (a, c) then Q a c.  A failing computation has cost 0 by
   definition of cost_of, so partial correctness is all a cost bound needs. *)
Definition cwlp {A} (m : cres A) (Q : A -> Z -> Prop) : Prop :=
  match m with Ok (a, c) => Q a c | _ => True end.

Lemma cwlp_ret {A} (a : A) (Q : A -> Z -> Prop) : Q a 0 -> cwlp (cret a) Q.
Proof. exact (fun H => H). Qed.

Lemma cwlp_bind {A B} (m : cres A) (k : A -> cres B) (Q : B -> Z -> Prop) :
  cwlp m (fun a c => cwlp (k a) (fun b c' => Q b (c + c'))) -> cwlp (cbind m k) Q.
Proof.
  destruct m as [[a c]| | |]; cbn; try exact (fun _ => I).
  destruct (k a) as [[b c']| | |]; cbn; auto.
Qed.

Lemma cwlp_conseq {A} (m : cres A) (Q Q' : A -> Z -> Prop) :
  cwlp m Q -> (forall a c, Q a c -> Q' a c) -> cwlp m Q'.
Proof. destruct m as [[a c]| | |]; cbn; auto. Qed.

Lemma cwlp_tick n (Q : unit -> Z -> Prop) : Q tt n -> cwlp (tick n) Q.
Proof. exact (fun H => H). Qed.

Lemma cwlp_pure {A} n (a : A) (Q : A -> Z -> Prop) : Q a n -> cwlp (pure_c n a) Q.
Proof. exact (fun H => H). Qed.

Lemma cwlp_charge {A} n (m : res A) (Q : A -> Z -> Prop) : wlp m (fun a => Q a n) -> cwlp (charge n m) Q.
Proof. intros H. destruct m; cbn; try exact I. apply H. reflexivity. Qed.

Lemma cwlp_get site s i (Q : byte -> Z -> Prop) :
  (forall b, 0 <= i < len s -> nth_error s (Z.to_nat i) = Some b -> Q b 1) -> cwlp (c_get site s i) Q.
Proof. intros H. apply cwlp_charge, wlp_get. exact H. Qed.

Lemma cwlp_drop site s i (Q : bytes -> Z -> Prop) :
  (0 <= i <= len s -> Q (skipn (Z.to_nat i) s) 1) -> cwlp (c_drop site s i) Q.
Proof. intros H. apply cwlp_charge, wlp_drop. exact H. Qed.

Lemma cwlp_take site s j (Q : bytes -> Z -> Prop) :
  (0 <= j <= len s -> Q (firstn (Z.to_nat j) s) 1) -> cwlp (c_take site s j) Q.
Proof. intros H. apply cwlp_charge, wlp_take. exact H. Qed.

Lemma cwlp_slice site s i j (Q : bytes -> Z -> Prop) :
  (0 <= i <= j -> j <= len s -> Q (firstn (Z.to_nat (j - i)) (skipn (Z.to_nat i) s)) 1) ->
  cwlp (c_slice site s i j) Q.
Proof. intros H. apply cwlp_charge, wlp_slice. exact H. Qed.

Lemma cwlp_cost {A} (m : cres A) B : 0 <= B -> cwlp m (fun _ c => c <= B) -> cost_of m <= B.
Proof. destruct m as [[a c]| | |]; cbn; auto. Qed.

Lemma cwlp_of_eq {A} (m : cres A) a c (Q : A -> Z -> Prop) : m = Ok (a, c) -> cwlp m Q -> Q a c.
Proof. intros ->. exact (fun H => H). Qed.

(* cost of the scan primitives, in the shape lia wants *)
Lemma index_byte_cost_spec s c :
  (index_byte s c = -1 /\ index_byte_cost s c = len s + 1) \/
  (0 <= index_byte s c < len s /\ index_byte_cost s c = index_byte s c + 1).
Proof.
  unfold index_byte_cost. cbv zeta. destruct (index_byte_range s c) as [E|E].
  - left. rewrite E. cbn. split; reflexivity.
  - right. destruct (index_byte s c <? 0) eqn:E2; [lia|]. split; [exact E|reflexivity].
Qed.

Lemma index_cost_le s sep : 0 <= index_cost s sep <= len s + len sep + 1.
Proof.
  unfold index_cost. cbv zeta. pose proof (len_nonneg s). pose proof (len_nonneg sep).
  destruct (index_range s sep) as [E|E].
  - rewrite E. cbn. lia.
  - destruct (index s sep <? 0) eqn:E2; lia.
Qed.

(* ---------- tactics ---------- *)

Ltac note_cost :=
  repeat match goal with
         | |- context [index_byte_cost ?l ?c] => learn (index_byte_cost_spec l c)
         | H : context [index_byte_cost ?l ?c] |- _ => learn (index_byte_cost_spec l c)
         end.

Definition KH : Z := 8.

Ltac cside := simp_h; consts; note_cost; note_facts; norm_len; change (len []) with 0 in *; unfold KH in *; lia.

Ltac cw_step :=
  lazymatch goal with
  | |- cwlp (cret _) _ => apply cwlp_ret
  | |- cwlp (cbind _ _) _ => apply cwlp_bind
  | |- cwlp (tick _) _ => apply cwlp_tick
  | |- cwlp (c_get _ _ _) _ => apply cwlp_get; intros ? ? ?
  | |- cwlp (c_drop _ _ _) _ => apply cwlp_drop; intros ?
  | |- cwlp (c_take _ _ _) _ => apply cwlp_take; intros ?
  | |- cwlp (c_slice _ _ _ _) _ => apply cwlp_slice; intros ? ?
  | |- cwlp (c_span _ _) _ => unfold c_span; apply cwlp_pure
  | |- cwlp (c_index_byte _ _) _ => unfold c_index_byte; apply cwlp_pure
  | |- cwlp (c_linear _ _) _ => unfold c_linear; apply cwlp_pure
  | |- cwlp (c_emit _ _ _ _ _ _ _ _) _ => unfold c_emit
  | |- cwlp (if ?c then _ else _) _ => destruct c eqn:?
  end.

Ltac cw_go := cbv zeta; simp_h; repeat (cw_step; cbv zeta; simp_h).

(* ---------- the per-step cost post-condition ---------- *)

Definition is_seof (f : h5fn) : bool := match f with SEOF => true | _ => false end.

(* r is the result of a step started at position pos0 of an input of length ln, c its cost:
   a step that emits a token and does not end the input costs at most KH per byte consumed;
   a step that ends the input costs at most KH per byte that was left. *)
Definition CPostAt (K0 pos0 ln : Z) (r : bool * h5) (c : Z) : Prop :=
  if fst r && negb (is_seof (hstate (snd r)))
  then c <= KH * (hpos (snd r) - pos0) + K0
  else c <= KH * (ln - pos0) + K0.

Definition CPost (K0 : Z) (h0 : h5) : bool * h5 -> Z -> Prop := CPostAt K0 (hpos h0) (hlen h0).

Lemma CPostAt_mono K0' pos2 K0 pos0 ln r c' ctot :
  CPostAt K0' pos2 ln r c' -> pos0 <= pos2 <= ln ->
  (ctot - c') + K0' <= KH * (pos2 - pos0) + K0 -> CPostAt K0 pos0 ln r ctot.
Proof.
  unfold CPostAt, KH. destruct (fst r && negb (is_seof (hstate (snd r)))); lia.
Qed.

Ltac cpost0 :=
  unfold CPost, CPostAt; simp_h; cbn [andb negb is_seof fst snd hstate hpos]; cside.
Ltac cpost := solve [cpost0].

(* ---------- skip_white ---------- *)


Lemma c_skip_white_cost h :
  cwlp (c_skip_white h)
       (fun r c => exists p, snd r = with_pos h p /\ hpos h <= p <= hlen h /\
                             ((fst r = -1 /\ p = hlen h) \/ (0 <= fst r /\ p < hlen h)) /\
                             c <= (p - hpos h) + 3).
Proof.
  unfold c_skip_white. cw_go.
  - eexists. split; [reflexivity|]. pose proof (code_range b). cbn [fst]. cside.
  - eexists. split; [reflexivity|]. cbn [fst]. cside.
Qed.

(* ---------- leaf states ---------- *)

Ltac copen :=
  match goal with
  | |- cwlp (c_h5_call (S ?d) _ _) _ =>
      let d2 := fresh "dd" in let E := fresh "Edd" in
      remember d as d2 eqn:E; cbn [c_h5_call]; subst d2
  end.

Lemma SEOF_cost d h : hpos h <= hlen h -> cwlp (c_h5_call (S d) SEOF h) (fun r c => r = (false, h) /\ c = 1).
Proof. intros H. cbn [c_h5_call]. cw_go. split; reflexivity. Qed.

Lemma SBogusComment_cost d h : 0 <= hpos h <= hlen h ->
  cwlp (c_h5_call (S d) SBogusComment h) (CPost 4 h).
Proof. intros H. cbn [c_h5_call]. cw_go; cpost. Qed.

Lemma SDoctype_cost d h : 0 <= hpos h <= hlen h ->
  cwlp (c_h5_call (S d) SDoctype h) (CPost 4 h).
Proof. intros H. cbn [c_h5_call]. cw_go; cpost. Qed.

Lemma STagNameClose_cost d h : 0 <= hpos h < hlen h ->
  cwlp (c_h5_call (S d) STagNameClose h) (CPost 2 h).
Proof. intros H. cbn [c_h5_call]. cw_go.
  match goal with |- context [if ?c then SData else SEOF] => destruct c eqn:E end; cpost.
Qed.

Lemma STagName_cost d h : 0 <= hpos h <= hlen h ->
  cwlp (c_h5_call (S d) STagName h) (CPost 5 h).
Proof. intros H. cbn [c_h5_call]. cw_go; cpost. Qed.

Lemma SAttributeValueNoQuote_cost d h : 0 <= hpos h <= hlen h ->
  cwlp (c_h5_call (S d) SAttributeValueNoQuote h) (CPost 5 h).
Proof. intros H. cbn [c_h5_call]. cw_go; cpost. Qed.

Lemma SAttributeName_cost d h : 0 <= hpos h <= hlen h ->
  cwlp (c_h5_call (S d) SAttributeName h) (CPost 5 h).
Proof. intros H. cbn [c_h5_call]. cw_go; cpost. Qed.

Lemma SQuote_cost d f h : is_quote f = true -> 0 <= hpos h <= hlen h -> hpos h = 0 \/ hpos h < hlen h ->
  cwlp (c_h5_call (S d) f h) (CPost 12 h).
Proof.
  intros Q H H0. destruct f; try discriminate Q; cbn [c_h5_call]; destruct (0 <? hpos h) eqn:E; cw_go; cpost.
Qed.
(* ---------- the three construct loops ---------- *)

(* number of leading bytes different from c *)
Definition nd (c : byte) (s : bytes) : Z := span (fun b => negb (beq b c)) s.

Lemma nd_index_byte s c :
  (index_byte s c = -1 /\ nd c s = len s) \/ (0 <= index_byte s c /\ nd c s = index_byte s c).
Proof.
  unfold nd. induction s as [|b s IH]; cbn [index_byte span]; [left; split; reflexivity|].
  rewrite len_cons. destruct (beq b c); cbn [negb]; [right; lia|].
  destruct IH as [[I N]|[I N]].
  - rewrite I. cbn. left.(*HERE*) lia.
  - destruct (index_byte s c <? 0) eqn:E; [lia|]. right. lia.
Qed.

Lemma span_le_mono (p q : byte -> bool) s : (forall b, p b = true -> q b = true) -> span p s <= span q s.
Proof.
  intros H. induction s as [|b s IH]; cbn [span]; [lia|].
  destruct (p b) eqn:E; [rewrite (H b E); lia|]. destruct (q b); pose proof (span_range q s); lia.
Qed.

Lemma null_run_le_nd s : span (fun b => beq b x00) s <= nd b_byte_dash s.
Proof.
  apply span_le_mono. intros b E. apply beq_eq in E. subst b. reflexivity.
Qed.

Lemma c_bogus2_loop_cost fuel : forall h p,
  0 <= hpos h <= p -> p <= hlen h ->
  cwlp (c_bogus2_loop fuel h p) (CPostAt 5 p (hlen h)).
Proof.
  induction fuel as [|fuel IH]; intros h p H1 H2; cbn [c_bogus2_loop]; [exact I|].
  cw_go; try cpost.
  eapply cwlp_conseq; [apply IH; cside|]. intros r c' HP. eapply CPostAt_mono; [exact HP| |]; cside.
Qed.

Lemma c_cdata_loop_cost fuel : forall h p,
  0 <= hpos h <= p -> p <= hlen h ->
  cwlp (c_cdata_loop fuel h p) (CPostAt 6 p (hlen h)).
Proof.
  induction fuel as [|fuel IH]; intros h p H1 H2; cbn [c_cdata_loop]; [exact I|].
  cw_go; try cpost.
  all: eapply cwlp_conseq; [apply IH; cside|]; intros r c' HP; eapply CPostAt_mono; [exact HP| |]; cside.
Qed.

(* the comment loop looks at the NUL run after a dash and, when the dash does not close the
   comment, continues right after the dash: the run is scanned a second time by the next
   IndexByte.  Amortised: the loop started at p costs at most KH per byte up to where it
   stops, minus the distance from p to the next dash. *)
Lemma c_comment_loop_cost fuel : forall h p,
  0 <= hpos h <= p -> p <= hlen h ->
  cwlp (c_comment_loop fuel h p)
       (fun r c => CPostAt 8 p (hlen h) r (c + nd b_byte_dash (skipn (Z.to_nat p) (hs h)))).
Proof.
  induction fuel as [|fuel IH]; intros h p H1 H2; cbn [c_comment_loop]; [exact I|].
  pose proof (nd_index_byte (skipn (Z.to_nat p) (hs h)) b_byte_dash) as ND.
  cw_go; try cpost.
  all: pose proof (null_run_le_nd (skipn (Z.to_nat (p + index_byte (skipn (Z.to_nat p) (hs h)) b_byte_dash + 1)) (hs h))) as NR.
  all: try cpost.
  all: eapply cwlp_conseq; [apply IH; cside|]; intros r c' HP; eapply CPostAt_mono; [exact HP| |]; cside.
Qed.



