(* CostHtmlProofs: erasure and linear cost bounds for the instrumented HTML5
   tokenizer (CostHtml5.v) and XSS classifier (CostXss.v). *)
From Coq Require Import List ZArith String Bool Lia ZifyBool.
From Coq.Strings Require Import Byte.
From LI Require Import Prelude Base Html5 Xss Proofs.BaseFacts Proofs.Wp Proofs.H5Spec.
From LI Require Import Cost.CostBase Cost.CostHtml5 Cost.CostXss.
From LIGen Require Import Tables Consts.
Import ListNotations.
Local Open Scope Z_scope.

(* ====================================================================== *)
(* Part (a): erasure                                                       *)
(* ====================================================================== *)

Lemma erase_cret {A} (a : A) : erase (cret a) = Ok a.
Proof. reflexivity. Qed.

Lemma erase_bind_ext {A B} (m : cres A) (k : A -> cres B) m' k' :
  erase m = m' -> (forall a, erase (k a) = k' a) -> erase (cbind m k) = bind m' k'.
Proof.
  intros <- H. destruct m as [[a c]| | |]; cbn; try reflexivity.
  rewrite <- H. destruct (k a) as [[b c']| | |]; reflexivity.
Qed.

(* the first computation is a value of the model (a pure scan, a tick, a pure classifier) *)
Lemma erase_bind_val {A B} (m : cres A) (k : A -> cres B) a :
  erase m = Ok a -> erase (cbind m k) = erase (k a).
Proof.
  intros H. destruct m as [[a' c]| | |]; cbn in H; try discriminate. inversion H; subst a'.
  cbn. destruct (k a) as [[b c']| | |]; reflexivity.
Qed.

Lemma erase_Ok_inv {A} (m : cres A) a : erase m = Ok a -> exists c, m = Ok (a, c).
Proof. destruct m as [[a' c]| | |]; cbn; intros H; try discriminate. inversion H. eauto. Qed.

Lemma erase_charge {A} n (m : res A) : erase (charge n m) = m.
Proof. destruct m; reflexivity. Qed.

Lemma erase_get site s i : erase (c_get site s i) = get site s i.
Proof. apply erase_charge. Qed.
Lemma erase_drop site s i : erase (c_drop site s i) = drop site s i.
Proof. apply erase_charge. Qed.
Lemma erase_take site s i : erase (c_take site s i) = take site s i.
Proof. apply erase_charge. Qed.
Lemma erase_slice site s i j : erase (c_slice site s i j) = slice site s i j.
Proof. apply erase_charge. Qed.

Create HintDb er.
#[local] Hint Resolve erase_get erase_drop erase_take erase_slice : er.

Ltac er_side := first [ solve [eauto with er] | reflexivity ].

Ltac er_step :=
  cbv zeta;
  lazymatch goal with
  | |- erase (cbind ?m ?k) = _ =>
      first [ erewrite (erase_bind_val m k) by er_side
            | apply erase_bind_ext; [ | intros ? ] ]
  | |- erase (if ?c then _ else _) = _ => destruct c
  | |- erase (match ?x with _ => _ end) = _ => destruct x
  | |- erase (cret _) = _ => reflexivity
  | |- _ => er_side
  end.

Ltac er := repeat er_step.

Lemma erase_emit site h off tlen ttype npos nstate close :
  erase (c_emit site h off tlen ttype npos nstate close) = emit site h off tlen ttype npos nstate close.
Proof. unfold c_emit, emit. er. Qed.
#[local] Hint Resolve erase_emit : er.

Lemma erase_skip_white h : erase (c_skip_white h) = skip_white h.
Proof. unfold c_skip_white, skip_white. er. Qed.
#[local] Hint Resolve erase_skip_white : er.

Lemma erase_bogus2_loop fuel : forall h p, erase (c_bogus2_loop fuel h p) = bogus2_loop fuel h p.
Proof.
  induction fuel as [|fuel IH]; intros h p; [reflexivity|].
  cbn [c_bogus2_loop bogus2_loop]. er.
Qed.

Lemma erase_comment_loop fuel : forall h p, erase (c_comment_loop fuel h p) = comment_loop fuel h p.
Proof.
  induction fuel as [|fuel IH]; intros h p; [reflexivity|].
  cbn [c_comment_loop comment_loop]. er.
Qed.

Lemma erase_cdata_loop fuel : forall h p, erase (c_cdata_loop fuel h p) = cdata_loop fuel h p.
Proof.
  induction fuel as [|fuel IH]; intros h p; [reflexivity|].
  cbn [c_cdata_loop cdata_loop]. er.
Qed.

Lemma erase_before_attr_name_loop fuel : forall h,
  erase (c_before_attr_name_loop fuel h) = before_attr_name_loop fuel h.
Proof.
  induction fuel as [|fuel IH]; intros h; [reflexivity|].
  cbn [c_before_attr_name_loop before_attr_name_loop]. er.
Qed.
#[local] Hint Resolve erase_bogus2_loop erase_comment_loop erase_cdata_loop erase_before_attr_name_loop : er.

Lemma erase_h5_call depth : forall f h, erase (c_h5_call depth f h) = h5_call depth f h.
Proof.
  induction depth as [|d IH]; intros f h; [reflexivity|].
  cbn [c_h5_call h5_call]. destruct f; er.
Qed.

Lemma erase_h5_next h : erase (c_h5_next h) = h5_next h.
Proof. apply erase_h5_call. Qed.
#[local] Hint Resolve erase_h5_call erase_h5_next : er.

Lemma erase_h5_tokens_loop fuel : forall h acc,
  erase (c_h5_tokens_loop fuel h acc) = h5_tokens_loop fuel h acc.
Proof.
  induction fuel as [|fuel IH]; intros h acc; [reflexivity|].
  cbn [c_h5_tokens_loop h5_tokens_loop]. er.
Qed.

Lemma erase_h5_tokens s fl : erase (c_h5_tokens s fl) = h5_tokens s fl.
Proof. apply erase_h5_tokens_loop. Qed.

(* ---------- Xss ---------- *)

Lemma erase_upper_without_nulls s : erase (c_upper_without_nulls s) = Ok (upper_without_nulls s).
Proof. reflexivity. Qed.
#[local] Hint Resolve erase_upper_without_nulls : er.

Lemma erase_existsb_eq u l : erase (c_existsb_eq u l) = Ok (existsb (bytes_eqb u) l).
Proof.
  induction l as [|k l IH]; [reflexivity|]. cbn [c_existsb_eq existsb].
  er.
Qed.
#[local] Hint Resolve erase_existsb_eq : er.

Lemma erase_scan_nomatch {A} n (l : list A) : erase (c_scan_nomatch n l) = Ok tt.
Proof.
  induction l as [|k l IH]; [reflexivity|]. cbn [c_scan_nomatch].
  er.
Qed.
#[local] Hint Resolve erase_scan_nomatch : er.

Lemma erase_is_black_tag s : erase (c_is_black_tag s) = Ok (is_black_tag s).
Proof.
  unfold c_is_black_tag, is_black_tag. er.
Qed.

Lemma erase_assoc_type u l : erase (c_assoc_type u l) = Ok (assoc_type u l).
Proof.
  induction l as [|[k v] l IH]; [reflexivity|]. cbn [c_assoc_type assoc_type].
  er.
Qed.
#[local] Hint Resolve erase_is_black_tag erase_assoc_type : er.

Lemma erase_is_black_attr s : erase (c_is_black_attr s) = Ok (is_black_attr s).
Proof.
  unfold c_is_black_attr, is_black_attr. er.
  2:{ destruct (to_upper_cmp _ _); er. }
  destruct (erase_Ok_inv _ _ (erase_assoc_type (skipn 2 b) black_events)) as [c1 E1].
  destruct (erase_Ok_inv _ _ (erase_assoc_type b blacks)) as [c2 E2].
  rewrite E1, E2.
  destruct (5 <=? len b); destruct (bytes_eqb b (bs "XMLNS")); destruct (bytes_eqb b (bs "XLINK"));
    destruct (bytes_eqb (firstn 2 b) (bs "ON")); destruct (assoc_type (skipn 2 b) black_events);
    destruct (assoc_type b blacks); reflexivity.
Qed.
#[local] Hint Resolve erase_is_black_attr : er.

Lemma erase_hex_val site ch : erase (c_hex_val site ch) = hex_val site ch.
Proof. apply erase_charge. Qed.
#[local] Hint Resolve erase_hex_val : er.

Lemma erase_decode_hex_loop fuel : forall s i val,
  erase (c_decode_hex_loop fuel s i val) = decode_hex_loop fuel s i val.
Proof.
  induction fuel as [|fuel IH]; intros s i val; cbn [c_decode_hex_loop decode_hex_loop]; er.
Qed.

Lemma erase_decode_dec_loop fuel : forall s i val,
  erase (c_decode_dec_loop fuel s i val) = decode_dec_loop fuel s i val.
Proof.
  induction fuel as [|fuel IH]; intros s i val; cbn [c_decode_dec_loop decode_dec_loop]; er.
Qed.
#[local] Hint Resolve erase_decode_hex_loop erase_decode_dec_loop : er.

Lemma erase_html_decode_byte_at s : erase (c_html_decode_byte_at s) = html_decode_byte_at s.
Proof. unfold c_html_decode_byte_at, html_decode_byte_at. er. Qed.
#[local] Hint Resolve erase_html_decode_byte_at : er.

Lemma erase_starts_with_loop fuel : forall rest first acc,
  erase (c_starts_with_loop fuel rest first acc) = starts_with_loop fuel rest first acc.
Proof.
  induction fuel as [|fuel IH]; intros rest first acc; cbn [c_starts_with_loop starts_with_loop]; er.
Qed.
#[local] Hint Resolve erase_starts_with_loop : er.

Lemma erase_html_encode_starts_with a b :
  erase (c_html_encode_starts_with a b) = html_encode_starts_with a b.
Proof. unfold c_html_encode_starts_with, html_encode_starts_with. er. Qed.
#[local] Hint Resolve erase_html_encode_starts_with : er.

Lemma erase_trim_left_junk s : erase (c_trim_left_junk s) = Ok (trim_left_junk s).
Proof.
  induction s as [|b s IH]; [reflexivity|]. cbn [c_trim_left_junk trim_left_junk]. er.
Qed.
#[local] Hint Resolve erase_trim_left_junk : er.

Lemma erase_any_scheme urls str : erase (c_any_scheme urls str) = any_scheme urls str.
Proof.
  induction urls as [|u urls IH]; [reflexivity|]. cbn [c_any_scheme any_scheme]. er.
Qed.
#[local] Hint Resolve erase_any_scheme : er.

Lemma erase_is_black_url s : erase (c_is_black_url s) = is_black_url s.
Proof. unfold c_is_black_url, is_black_url. er. Qed.
#[local] Hint Resolve erase_is_black_url : er.

Lemma erase_classify h attr : erase (c_classify h attr) = classify h attr.
Proof. unfold c_classify, classify. er. Qed.
#[local] Hint Resolve erase_classify : er.

Lemma erase_xss_loop fuel : forall h attr, erase (c_xss_loop fuel h attr) = xss_loop fuel h attr.
Proof.
  induction fuel as [|fuel IH]; intros h attr; [reflexivity|].
  cbn [c_xss_loop xss_loop]. er.
Qed.

Lemma erase_xss_ctx s fl : erase (c_xss_ctx s fl) = xss_ctx s fl.
Proof. apply erase_xss_loop. Qed.
#[local] Hint Resolve erase_xss_ctx : er.

Lemma erase_is_xss s : erase (c_is_xss s) = is_xss s.
Proof. unfold c_is_xss, is_xss. er. Qed.

(* ====================================================================== *)
(* Part (b): a partial-correctness logic with costs                        *)
(* ====================================================================== *)

(* cwlp m Q: if m returns (a, c) then Q a c.  A failing computation has cost 0 by
   definition of cost_of, so partial correctness is all a cost bound needs. *)
Definition cwlp {A} (m : cres A) (Q : A -> Z -> Prop) : Prop :=
  match m with Ok (a, c) => Q a c | _ => True end.

Lemma cwlp_ret {A} (a : A) (Q : A -> Z -> Prop) : Q a 0 -> cwlp (cret a) Q.
Proof. exact (fun H => H). Qed.

Lemma cwlp_bind {A B} (m : cres A) (k : A -> cres B) (Q : B -> Z -> Prop) :
  cwlp m (fun a c => cwlp (k a) (fun b c' => Q b (c + c'))) -> cwlp (cbind m k) Q.
Proof.
  destruct m as [[a c]| | |]; cbn; try exact (fun _ => I).
  destruct (k a) as [[b c']| | |]; cbn; auto.
Qed.

Lemma cwlp_conseq {A} (m : cres A) (Q Q' : A -> Z -> Prop) :
  cwlp m Q -> (forall a c, Q a c -> Q' a c) -> cwlp m Q'.
Proof. destruct m as [[a c]| | |]; cbn; auto. Qed.

Lemma cwlp_tick n (Q : unit -> Z -> Prop) : Q tt n -> cwlp (tick n) Q.
Proof. exact (fun H => H). Qed.

Lemma cwlp_pure {A} n (a : A) (Q : A -> Z -> Prop) : Q a n -> cwlp (pure_c n a) Q.
Proof. exact (fun H => H). Qed.

Lemma cwlp_charge {A} n (m : res A) (Q : A -> Z -> Prop) : wlp m (fun a => Q a n) -> cwlp (charge n m) Q.
Proof. intros H. destruct m; cbn; try exact I. apply H. reflexivity. Qed.

Lemma cwlp_get site s i (Q : byte -> Z -> Prop) :
  (forall b, 0 <= i < len s -> nth_error s (Z.to_nat i) = Some b -> Q b 1) -> cwlp (c_get site s i) Q.
Proof. intros H. apply cwlp_charge, wlp_get. exact H. Qed.

Lemma cwlp_drop site s i (Q : bytes -> Z -> Prop) :
  (0 <= i <= len s -> Q (skipn (Z.to_nat i) s) 1) -> cwlp (c_drop site s i) Q.
Proof. intros H. apply cwlp_charge, wlp_drop. exact H. Qed.

Lemma cwlp_take site s j (Q : bytes -> Z -> Prop) :
  (0 <= j <= len s -> Q (firstn (Z.to_nat j) s) 1) -> cwlp (c_take site s j) Q.
Proof. intros H. apply cwlp_charge, wlp_take. exact H. Qed.

Lemma cwlp_slice site s i j (Q : bytes -> Z -> Prop) :
  (0 <= i <= j -> j <= len s -> Q (firstn (Z.to_nat (j - i)) (skipn (Z.to_nat i) s)) 1) ->
  cwlp (c_slice site s i j) Q.
Proof. intros H. apply cwlp_charge, wlp_slice. exact H. Qed.

Lemma cwlp_cost {A} (m : cres A) B : 0 <= B -> cwlp m (fun _ c => c <= B) -> cost_of m <= B.
Proof. destruct m as [[a c]| | |]; cbn; auto. Qed.

Lemma cwlp_of_eq {A} (m : cres A) a c (Q : A -> Z -> Prop) : m = Ok (a, c) -> cwlp m Q -> Q a c.
Proof. intros ->. exact (fun H => H). Qed.

(* cost of the scan primitives, in the shape lia wants *)
Lemma index_byte_cost_spec s c :
  (index_byte s c = -1 /\ index_byte_cost s c = len s + 1) \/
  (0 <= index_byte s c < len s /\ index_byte_cost s c = index_byte s c + 1).
Proof.
  unfold index_byte_cost. cbv zeta. destruct (index_byte_range s c) as [E|E].
  - left. rewrite E. cbn. split; reflexivity.
  - right. destruct (index_byte s c <? 0) eqn:E2; [lia|]. split; [exact E|reflexivity].
Qed.

Lemma index_cost_le s sep : 0 <= index_cost s sep <= len s + len sep + 1.
Proof.
  unfold index_cost. cbv zeta. pose proof (len_nonneg s). pose proof (len_nonneg sep).
  destruct (index_range s sep) as [E|E].
  - rewrite E. cbn. lia.
  - destruct (index s sep <? 0) eqn:E2; lia.
Qed.

(* ---------- tactics ---------- *)

Ltac note_cost :=
  repeat match goal with
         | |- context [index_byte_cost ?l ?c] => learn (index_byte_cost_spec l c)
         | H : context [index_byte_cost ?l ?c] |- _ => learn (index_byte_cost_spec l c)
         end.

Definition KH : Z := 8.

Ltac cside := simp_h; consts; note_cost; note_facts; norm_len; change (len []) with 0 in *; unfold KH in *; lia.

Ltac cw_step :=
  lazymatch goal with
  | |- cwlp (cret _) _ => apply cwlp_ret
  | |- cwlp (cbind _ _) _ => apply cwlp_bind
  | |- cwlp (tick _) _ => apply cwlp_tick
  | |- cwlp (c_get _ _ _) _ => apply cwlp_get; intros ? ? ?
  | |- cwlp (c_drop _ _ _) _ => apply cwlp_drop; intros ?
  | |- cwlp (c_take _ _ _) _ => apply cwlp_take; intros ?
  | |- cwlp (c_slice _ _ _ _) _ => apply cwlp_slice; intros ? ?
  | |- cwlp (pure_c _ _) _ => apply cwlp_pure
  | |- cwlp (c_span _ _) _ => unfold c_span; apply cwlp_pure
  | |- cwlp (c_index_byte _ _) _ => unfold c_index_byte; apply cwlp_pure
  | |- cwlp (c_linear _ _) _ => unfold c_linear; apply cwlp_pure
  | |- cwlp (c_emit _ _ _ _ _ _ _ _) _ => unfold c_emit
  | |- cwlp (if ?c then _ else _) _ => destruct c eqn:?
  end.

Ltac cw_go := cbv beta zeta; simp_h; repeat (cw_step; cbv beta zeta; simp_h).

(* ---------- the per-step cost post-condition ---------- *)

Definition is_seof (f : h5fn) : bool := match f with SEOF => true | _ => false end.

(* r is the result of a step started at position pos0 of an input of length ln, c its cost:
   a step that emits a token and does not end the input costs at most KH per byte consumed;
   a step that ends the input costs at most KH per byte that was left. *)
Definition CPostAt (K0 pos0 ln : Z) (r : bool * h5) (c : Z) : Prop :=
  if fst r && negb (is_seof (hstate (snd r)))
  then c <= KH * (hpos (snd r) - pos0) + K0
  else c <= KH * (ln - pos0) + K0.

Definition CPost (K0 : Z) (h0 : h5) : bool * h5 -> Z -> Prop := CPostAt K0 (hpos h0) (hlen h0).

Lemma CPostAt_mono K0' pos2 K0 pos0 ln r c' ctot :
  CPostAt K0' pos2 ln r c' -> pos0 <= pos2 <= ln ->
  (ctot - c') + K0' <= KH * (pos2 - pos0) + K0 -> CPostAt K0 pos0 ln r ctot.
Proof.
  unfold CPostAt, KH. destruct (fst r && negb (is_seof (hstate (snd r)))); lia.
Qed.

Ltac cpost0 :=
  unfold CPost, CPostAt; simp_h; cbn [andb negb is_seof fst snd hstate hpos]; cside.
Ltac cpost := solve [cpost0].

(* ---------- skip_white ---------- *)




Lemma c_skip_white_cost h :
  cwlp (c_skip_white h)
       (fun r c => exists p, snd r = with_pos h p /\ hpos h <= p <= hlen h /\
                             ((fst r = -1 /\ p = hlen h) \/ (0 <= fst r /\ p < hlen h)) /\
                             c <= (p - hpos h) + 3).
Proof.
  unfold c_skip_white. cw_go.
  - eexists. split; [reflexivity|]. pose proof (code_range b). cbn [fst]. cside.
  - eexists. split; [reflexivity|]. cbn [fst]. cside.
Qed.

(* ---------- leaf states ---------- *)

Ltac copen :=
  match goal with
  | |- cwlp (c_h5_call (S ?d) _ _) _ =>
      let d2 := fresh "dd" in let E := fresh "Edd" in
      remember d as d2 eqn:E; cbn [c_h5_call]; subst d2
  end.

Lemma SEOF_cost d h : hpos h <= hlen h -> cwlp (c_h5_call (S d) SEOF h) (fun r c => r = (false, h) /\ c = 1).
Proof. intros H. cbn [c_h5_call]. cw_go. split; reflexivity. Qed.

Lemma SBogusComment_cost d h : 0 <= hpos h <= hlen h ->
  cwlp (c_h5_call (S d) SBogusComment h) (CPost 4 h).
Proof. intros H. cbn [c_h5_call]. cw_go; cpost. Qed.

Lemma SDoctype_cost d h : 0 <= hpos h <= hlen h ->
  cwlp (c_h5_call (S d) SDoctype h) (CPost 4 h).
Proof. intros H. cbn [c_h5_call]. cw_go; cpost. Qed.

Lemma STagNameClose_cost d h : 0 <= hpos h < hlen h ->
  cwlp (c_h5_call (S d) STagNameClose h) (CPost 2 h).
Proof. intros H. cbn [c_h5_call]. cw_go.
  match goal with |- context [if ?c then SData else SEOF] => destruct c eqn:E end; cpost.
Qed.

Lemma STagName_cost d h : 0 <= hpos h <= hlen h ->
  cwlp (c_h5_call (S d) STagName h) (CPost 5 h).
Proof. intros H. cbn [c_h5_call]. cw_go; cpost. Qed.

Lemma SAttributeValueNoQuote_cost d h : 0 <= hpos h <= hlen h ->
  cwlp (c_h5_call (S d) SAttributeValueNoQuote h) (CPost 5 h).
Proof. intros H. cbn [c_h5_call]. cw_go; cpost. Qed.

Lemma SAttributeName_cost d h : 0 <= hpos h <= hlen h ->
  cwlp (c_h5_call (S d) SAttributeName h) (CPost 5 h).
Proof. intros H. cbn [c_h5_call]. cw_go; cpost. Qed.

Lemma SQuote_cost d f h : is_quote f = true -> 0 <= hpos h <= hlen h -> hpos h = 0 \/ hpos h < hlen h ->
  cwlp (c_h5_call (S d) f h) (CPost 12 h).
Proof.
  intros Q H H0. destruct f; try discriminate Q; cbn [c_h5_call]; destruct (0 <? hpos h) eqn:E; cw_go; cpost.
Qed.
(* ---------- the three construct loops ---------- *)

(* number of leading bytes different from c *)
Definition nd (c : byte) (s : bytes) : Z := span (fun b => negb (beq b c)) s.

Lemma nd_index_byte s c :
  (index_byte s c = -1 /\ nd c s = len s) \/ (0 <= index_byte s c /\ nd c s = index_byte s c).
Proof.
  unfold nd. induction s as [|b s IH]; cbn [index_byte span]; [left; split; reflexivity|].
  rewrite len_cons. destruct (beq b c); cbn [negb]; [right; lia|].
  destruct IH as [[I N]|[I N]].
  - rewrite I. left. change (-1 <? 0) with true. cbv iota. lia.
  - destruct (index_byte s c <? 0) eqn:E; [lia|]. right. lia.
Qed.

Lemma span_le_mono (p q : byte -> bool) s : (forall b, p b = true -> q b = true) -> span p s <= span q s.
Proof.
  intros H. induction s as [|b s IH]; cbn [span]; [lia|].
  destruct (p b) eqn:E; [rewrite (H b E); lia|]. destruct (q b); pose proof (span_range q s); lia.
Qed.

Lemma null_run_le_nd s : span (fun b => beq b x00) s <= nd b_byte_dash s.
Proof.
  apply span_le_mono. intros b E. apply beq_eq in E. subst b. reflexivity.
Qed.

Lemma c_bogus2_loop_cost fuel : forall h p,
  0 <= hpos h <= p -> p <= hlen h ->
  cwlp (c_bogus2_loop fuel h p) (CPostAt 5 p (hlen h)).
Proof.
  induction fuel as [|fuel IH]; intros h p H1 H2; cbn [c_bogus2_loop]; [exact I|].
  cw_go; try cpost.
  eapply cwlp_conseq; [apply IH; cside|]. intros r c' HP. eapply CPostAt_mono; [exact HP| |]; cside.
Qed.

Lemma c_cdata_loop_cost fuel : forall h p,
  0 <= hpos h <= p -> p <= hlen h ->
  cwlp (c_cdata_loop fuel h p) (CPostAt 6 p (hlen h)).
Proof.
  induction fuel as [|fuel IH]; intros h p H1 H2; cbn [c_cdata_loop]; [exact I|].
  cw_go; try cpost.
  all: eapply cwlp_conseq; [apply IH; cside|]; intros r c' HP; eapply CPostAt_mono; [exact HP| |]; cside.
Qed.

(* the comment loop looks at the NUL run after a dash and, when the dash does not close the
   comment, continues right after the dash: the run is scanned a second time by the next
   IndexByte.  Amortised: the loop started at p costs at most KH per byte up to where it
   stops, minus the distance from p to the next dash. *)
Lemma c_comment_loop_cost fuel : forall h p,
  0 <= hpos h <= p -> p <= hlen h ->
  cwlp (c_comment_loop fuel h p)
       (fun r c => CPostAt 8 p (hlen h) r (c + nd b_byte_dash (skipn (Z.to_nat p) (hs h)))).
Proof.
  induction fuel as [|fuel IH]; intros h p H1 H2; cbn [c_comment_loop]; [exact I|].
  pose proof (nd_index_byte (skipn (Z.to_nat p) (hs h)) b_byte_dash) as ND.
  cw_go; try cpost.
  all: pose proof (null_run_le_nd (skipn (Z.to_nat (p + index_byte (skipn (Z.to_nat p) (hs h)) b_byte_dash + 1)) (hs h))) as NR.
  all: try cpost.
  all: eapply cwlp_conseq; [apply IH; cside|]; intros r c' HP; eapply CPostAt_mono; [exact HP| |]; cside.
Qed.
Lemma SBogusComment2_cost d h : 0 <= hpos h <= hlen h ->
  cwlp (c_h5_call (S d) SBogusComment2 h) (CPost 6 h).
Proof.
  intros H. cbn [c_h5_call]. cw_go.
  eapply cwlp_conseq; [apply c_bogus2_loop_cost; cside|]. intros r c' HP.
  eapply CPostAt_mono; [exact HP| |]; cside.
Qed.

Lemma SCData_cost d h : 0 <= hpos h <= hlen h ->
  cwlp (c_h5_call (S d) SCData h) (CPost 7 h).
Proof.
  intros H. cbn [c_h5_call]. cw_go.
  eapply cwlp_conseq; [apply c_cdata_loop_cost; cside|]. intros r c' HP.
  eapply CPostAt_mono; [exact HP| |]; cside.
Qed.

Lemma SComment_cost d h : 0 <= hpos h <= hlen h ->
  cwlp (c_h5_call (S d) SComment h) (CPost 9 h).
Proof.
  intros H. cbn [c_h5_call]. cw_go.
  eapply cwlp_conseq; [apply c_comment_loop_cost; cside|]. intros r c' HP.
  pose proof (span_range (fun b => negb (beq b b_byte_dash)) (skipn (Z.to_nat (hpos h)) (hs h))).
  eapply CPostAt_mono; [exact HP| |]; unfold nd; cside.
Qed.

(* ---------- the two cycle cuts ---------- *)

Lemma SData_leaf_cost d h : 0 <= hpos h <= hlen h ->
  nth_error (hs h) (Z.to_nat (hpos h)) <> Some b_byte_lt ->
  cwlp (c_h5_call (S d) SData h) (CPost 4 h).
Proof.
  intros H N. cbn [c_h5_call]. cw_go; try cpost.
  exfalso. apply N.
  destruct (index_byte_cases (skipn (Z.to_nat (hpos h)) (hs h)) b_byte_lt) as [[I _]|[_ I]]; [lia|].
  replace (index_byte (skipn (Z.to_nat (hpos h)) (hs h)) b_byte_lt) with 0 in I by lia.
  rewrite nth_skipn_0 in I by lia. exact I.
Qed.

Lemma SSelfClosing_leaf_cost d h : 1 <= hpos h <= hlen h ->
  hpos h = hlen h \/ nth_error (hs h) (Z.to_nat (hpos h)) = Some b_byte_gt ->
  cwlp (c_h5_call (S d) SSelfClosingStartTag h) (CPost 3 h).
Proof.
  intros H N. cbn [c_h5_call]. cw_go; try cpost.
  exfalso. destruct N as [N|N]; [lia|].
  match goal with H1 : nth_error _ _ = Some ?b, H2 : beq ?b _ = false |- _ =>
    rewrite N in H1; inversion H1; subst b; vm_compute in H2; discriminate H2 end.
Qed.

(* ---------- stateBeforeAttributeName ---------- *)

Definition ban_cpost (K0 : Z) (h0 : h5) (o : ban_out) (c : Z) : Prop :=
  match o with
  | BanDone r => CPost K0 h0 r c
  | BanCall f h2 =>
      hs h2 = hs h0 /\ hpos h0 <= hpos h2 <= hlen h0 /\ c <= KH * (hpos h2 - hpos h0) + K0 /\
      ((f = SAttributeName /\ hpos h2 < hlen h0) \/
       (f = SSelfClosingStartTag /\ hpos h0 + 1 <= hpos h2 /\
        (hpos h2 = hlen h0 \/ nth_error (hs h2) (Z.to_nat (hpos h2)) = Some b_byte_gt)))
  end.

Lemma ban_cpost_mono K0 h h2 o c' ctot :
  hs h2 = hs h -> hpos h <= hpos h2 <= hlen h ->
  (ctot - c') + K0 <= KH * (hpos h2 - hpos h) + K0 ->
  ban_cpost K0 h2 o c' -> ban_cpost K0 h o ctot.
Proof.
  intros E F L. destruct o as [r|f h3]; cbn [ban_cpost].
  - unfold CPost, hlen. rewrite E. intros HP. eapply CPostAt_mono; [exact HP| |]; unfold hlen in *; lia.
  - unfold hlen in *. rewrite E. unfold KH in *. intuition (try congruence; try lia).
Qed.

Lemma c_ban_loop_cost fuel : forall h,
  0 <= hpos h <= hlen h ->
  cwlp (c_before_attr_name_loop fuel h) (ban_cpost 6 h).
Proof.
  induction fuel as [|fuel IH]; intros h H1; cbn [c_before_attr_name_loop]; [exact I|].
  apply cwlp_bind, cwlp_tick.
  destruct (hpos h <? hlen h) eqn:E.
  2:{ apply cwlp_ret. cbn [ban_cpost]. cpost. }
  apply cwlp_bind. eapply cwlp_conseq; [apply c_skip_white_cost|].
  intros [ch h2] c1 (p & E2 & Hp & Hch & Hc). cbn [fst snd] in *. subst h2.
  cw_go.
  - cbn [ban_cpost]. cpost.
  - eapply cwlp_conseq; [apply IH; cside|]. intros o c' HP.
    eapply ban_cpost_mono; [| |  |exact HP]; simp_h; try reflexivity; cside.
  - cbn [ban_cpost]. simp_h. consts. splits; try reflexivity; try cside.
    right. splits; try reflexivity; try lia. right.
    match goal with H : nth_error _ _ = Some ?b, H' : negb (beq ?b _) = false |- _ =>
      apply negb_false_iff, beq_eq in H'; subst b; exact H end.
  - cbn [ban_cpost]. simp_h. consts. splits; try reflexivity; try cside.
    right. splits; try reflexivity; try lia.
  - cbn [ban_cpost]. cpost.
  - cbn [ban_cpost]. simp_h. consts. splits; try reflexivity; try cside.
    left. splits; try reflexivity; try lia.
Qed.
Ltac ccall L :=
  eapply cwlp_conseq;
  [ apply L; first [reflexivity | cside]
  | let r := fresh "r" in let c' := fresh "c" in let HP := fresh "HP" in
    intros r c' HP; unfold CPost; eapply CPostAt_mono; [exact HP | cside | cside ] ].

Lemma SBeforeAttributeName_cost d h : 0 <= hpos h <= hlen h ->
  cwlp (c_h5_call (S (S d)) SBeforeAttributeName h) (CPost 12 h).
Proof.
  intros H. copen. apply cwlp_bind, cwlp_tick. apply cwlp_bind.
  eapply cwlp_conseq; [apply c_ban_loop_cost; lia|].
  intros [r|f h2] c1; cbn [ban_cpost].
  - intros P. apply cwlp_ret. unfold CPost in *. eapply CPostAt_mono; [exact P| |]; cside.
  - intros (E & F & Hc & [[-> L]|(-> & L1 & L2)]);
      assert (EL : hlen h2 = hlen h) by (unfold hlen; rewrite E; reflexivity).
    + eapply cwlp_conseq; [apply SAttributeName_cost; rewrite EL; lia|].
      intros r c' HP. unfold CPost in *. rewrite EL in HP. eapply CPostAt_mono; [exact HP| |]; cside.
    + eapply cwlp_conseq; [apply SSelfClosing_leaf_cost; rewrite EL; [lia|exact L2]|].
      intros r c' HP. unfold CPost in *. rewrite EL in HP. eapply CPostAt_mono; [exact HP| |]; cside.
Qed.

Lemma SSelfClosing_cost d h : 1 <= hpos h <= hlen h ->
  cwlp (c_h5_call (S (S (S d))) SSelfClosingStartTag h) (CPost 14 h).
Proof.
  intros H. copen. cw_go; try cpost.
  ccall SBeforeAttributeName_cost.
Qed.

Lemma SAfterAttributeValueQuoted_cost d h : 0 <= hpos h <= hlen h ->
  cwlp (c_h5_call (S (S (S (S d)))) SAfterAttributeValueQuoted h) (CPost 16 h).
Proof.
  intros H. copen. cw_go; try cpost.
  - ccall (SBeforeAttributeName_cost (S d)).
  - ccall SSelfClosing_cost.
  - ccall (SBeforeAttributeName_cost (S d)).
Qed.

Ltac cafter_skip_white :=
  apply cwlp_bind; eapply cwlp_conseq; [apply c_skip_white_cost|];
  let ch := fresh "ch" in let h2 := fresh "h2" in let p := fresh "p" in let c1 := fresh "c" in
  let E := fresh "E" in let Hp := fresh "Hp" in let Hch := fresh "Hch" in let Hc := fresh "Hc" in
  intros [ch h2] c1 (p & E & Hp & Hch & Hc); cbn [fst snd] in E, Hch; subst h2.

Lemma SBeforeAttributeValue_cost d h : 0 <= hpos h <= hlen h ->
  cwlp (c_h5_call (S (S d)) SBeforeAttributeValue h) (CPost 16 h).
Proof.
  intros H. copen. apply cwlp_bind, cwlp_tick. cafter_skip_white. cw_go; try cpost.
  - ccall (SQuote_cost d SAttributeValueDoubleQuote).
  - ccall (SQuote_cost d SAttributeValueSingleQuote).
  - ccall (SQuote_cost d SAttributeValueBackQuote).
  - ccall SAttributeValueNoQuote_cost.
Qed.

Lemma SAfterAttributeName_cost d h : 0 <= hpos h <= hlen h ->
  cwlp (c_h5_call (S (S (S (S d)))) SAfterAttributeName h) (CPost 20 h).
Proof.
  intros H. copen. apply cwlp_bind, cwlp_tick. cafter_skip_white. cw_go; try cpost.
  - ccall SSelfClosing_cost.
  - ccall (SBeforeAttributeValue_cost (S d)).
  - ccall (STagNameClose_cost (S (S d))).
  - ccall (SAttributeName_cost (S (S d))).
Qed.

Ltac note_firstn :=
  repeat match goal with
         | |- context [len (firstn ?n ?l)] => learn (len_firstn l n)
         | H : context [len (firstn ?n ?l)] |- _ => learn (len_firstn l n)
         end.

Lemma SMarkupDeclarationOpen_cost d h : 0 <= hpos h <= hlen h ->
  cwlp (c_h5_call (S (S d)) SMarkupDeclarationOpen h) (CPost 32 h).
Proof.
  intros H. copen. cw_go.
  all: note_firstn.
  all: eapply cwlp_conseq;
    [ first [apply SDoctype_cost | apply SCData_cost | apply SComment_cost | apply SBogusComment_cost]; cside
    | intros r c' HP; unfold CPost; eapply CPostAt_mono; [exact HP | cside | cside ] ].
Qed.
Lemma SEndTagOpen_cost d h : 0 <= hpos h <= hlen h ->
  cwlp (c_h5_call (S (S d)) SEndTagOpen h) (CPost 8 h).
Proof.
  intros H. copen. cw_go; try cpost.
  - eapply cwlp_conseq.
    + apply SData_leaf_cost; [cside|].
      match goal with H1 : nth_error _ _ = Some ?b, H2 : beq ?b _ = true |- _ =>
        rewrite H1; intros N; inversion N; subst b; vm_compute in H2; discriminate H2 end.
    + intros r c' HP; unfold CPost; eapply CPostAt_mono; [exact HP | cside | cside ].
  - ccall STagName_cost.
  - ccall SBogusComment_cost.
Qed.

Lemma STagOpen_cost d h : 1 <= hpos h <= hlen h ->
  cwlp (c_h5_call (S (S (S d))) STagOpen h) (CPost 36 h).
Proof.
  intros H. copen. cw_go; try cpost.
  - ccall SMarkupDeclarationOpen_cost.
  - ccall SEndTagOpen_cost.
  - ccall SBogusComment_cost.
  - ccall SBogusComment2_cost.
  - ccall STagName_cost.
  - ccall STagName_cost.
Qed.

Lemma SData_cost d h : 0 <= hpos h <= hlen h ->
  cwlp (c_h5_call (S (S (S (S d)))) SData h) (CPost 40 h).
Proof.
  intros H. copen. cw_go; try cpost.
  ccall STagOpen_cost.
Qed.

(* ---------- one step of the tokenizer ---------- *)

Lemma CPost_weaken K0' K0 h r c : K0' <= K0 -> CPost K0' h r c -> CPost K0 h r c.
Proof. unfold CPost, CPostAt, KH. destruct (fst r && negb (is_seof (hstate (snd r)))); lia. Qed.

Ltac cfin L := eapply cwlp_conseq; [apply L; first [reflexivity | lia] | intros r c; apply CPost_weaken; lia].

(* the additive constant of one tokenizer step *)
Definition KS : Z := 40.

Lemma c_h5_call_cost d h : h5_ok h -> hstate h <> SEOF ->
  cwlp (c_h5_call (S (S (S (S d)))) (hstate h) h) (CPost KS h).
Proof.
  intros K NE. unfold h5_ok in K. unfold KS.
  destruct (hstate h) eqn:ST; cbn [st_ok] in K; try congruence.
  - cfin SData_cost.
  - cfin STagOpen_cost.
  - cfin SEndTagOpen_cost.
  - cfin SMarkupDeclarationOpen_cost.
  - cfin SBogusComment_cost.
  - cfin SBogusComment2_cost.
  - cfin SComment_cost.
  - cfin SCData_cost.
  - cfin SDoctype_cost.
  - cfin STagName_cost.
  - cfin STagNameClose_cost.
  - cfin SSelfClosing_cost.
  - cfin SBeforeAttributeName_cost.
  - cfin SAttributeName_cost.
  - cfin SAfterAttributeName_cost.
  - cfin SBeforeAttributeValue_cost.
  - cfin SAttributeValueNoQuote_cost.
  - cfin (SQuote_cost (S (S (S d))) SAttributeValueSingleQuote).
  - cfin (SQuote_cost (S (S (S d))) SAttributeValueDoubleQuote).
  - cfin (SQuote_cost (S (S (S d))) SAttributeValueBackQuote).
  - cfin SAfterAttributeValueQuoted_cost.
Qed.

(* (b) the per-step bound: a step that emits a token and leaves the tokenizer in a state other
   than EOF costs at most KH per byte consumed plus KS; any other step (it ends the input)
   costs at most KH per byte that was left plus KS *)
Theorem c_h5_next_cost h : h5_ok h -> hstate h <> SEOF -> cwlp (c_h5_next h) (CPost KS h).
Proof. intros K NE. unfold c_h5_next, h5_depth. apply (c_h5_call_cost 4 h K NE). Qed.

Theorem c_h5_next_cost_eof h : hstate h = SEOF -> c_h5_next h = Ok ((false, h), 1).
Proof. intros E. unfold c_h5_next. rewrite E. reflexivity. Qed.

(* ====================================================================== *)
(* Part (b), continued: the classifier                                     *)
(* ====================================================================== *)

Lemma len_remove_byte c s : len (remove_byte c s) <= len s.
Proof.
  unfold remove_byte. induction s as [|b s IH]; cbn [filter]; [lia|].
  destruct (negb (beq b c)); rewrite ?len_cons; lia.
Qed.

Lemma len_option_map_cons (b : byte) o u : option_map (cons b) o = Some u -> exists u', o = Some u' /\ len u = 1 + len u'.
Proof. destruct o as [u'|]; cbn; intros H; inversion H. exists u'. rewrite len_cons. auto. Qed.

Lemma len_go_upper_view : forall s,
  (forall u, go_upper_view s = Some u -> len u <= len s) /\
  (forall b u, go_upper_view (b :: s) = Some u -> len u <= 1 + len s).
Proof.
  induction s as [|b2 s [IH1 IH2]].
  - split; [intros u H; inversion H; lia|].
    intros b u. cbn [go_upper_view]. destruct (is_ascii b); [|discriminate].
    cbn. intros H; inversion H. rewrite len_cons. cbn. lia.
  - assert (A : forall b u, go_upper_view (b :: b2 :: s) = Some u -> len u <= 1 + len (b2 :: s)).
    { intros b u. cbn [go_upper_view]. destruct (is_ascii b).
      - intros H. apply len_option_map_cons in H. destruct H as [u' [H ->]].
        apply IH2 in H. rewrite len_cons. lia.
      - rewrite len_cons. destruct (beq b xc5 && beq b2 xbf).
        + intros H. apply len_option_map_cons in H. destruct H as [u' [H ->]]. apply IH1 in H. lia.
        + destruct (beq b xc4 && beq b2 xb1); [|discriminate].
          intros H. apply len_option_map_cons in H. destruct H as [u' [H ->]]. apply IH1 in H. lia. }
    split; [|exact A]. intros u H. apply IH2 in H. rewrite len_cons. lia.
Qed.

Lemma c_upper_without_nulls_cost s :
  cwlp (c_upper_without_nulls s)
       (fun ou c => c <= 2 * len s + 2 /\ forall u, ou = Some u -> len u <= len s).
Proof.
  unfold c_upper_without_nulls. cw_go. pose proof (len_remove_byte x00 s). split; [lia|].
  intros u E. apply (proj1 (len_go_upper_view _)) in E. lia.
Qed.

Lemma c_existsb_eq_cost u l :
  cwlp (c_existsb_eq u l) (fun _ c => c <= (len u + 2) * Z.of_nat (List.length l)).
Proof.
  pose proof (len_nonneg u).
  induction l as [|k l IH]; cbn [c_existsb_eq List.length]; [apply cwlp_ret; lia|].
  rewrite Nat2Z.inj_succ, Z.mul_succ_r.
  cw_go; [nia|]. eapply cwlp_conseq; [exact IH|]. cbv beta. intros _ c Hc. lia.
Qed.

Lemma c_assoc_type_cost u l :
  cwlp (c_assoc_type u l) (fun _ c => c <= (len u + 2) * Z.of_nat (List.length l)).
Proof.
  pose proof (len_nonneg u).
  induction l as [|[k v] l IH]; cbn [c_assoc_type List.length]; [apply cwlp_ret; lia|].
  rewrite Nat2Z.inj_succ, Z.mul_succ_r.
  cw_go; [nia|]. eapply cwlp_conseq; [exact IH|]. cbv beta. intros _ c Hc. lia.
Qed.

Lemma c_scan_nomatch_cost {A} n (l : list A) : 0 <= n ->
  cwlp (c_scan_nomatch n l) (fun _ c => c <= (n + 2) * Z.of_nat (List.length l)).
Proof.
  intros Hn.
  induction l as [|k l IH]; cbn [c_scan_nomatch List.length]; [apply cwlp_ret; lia|].
  rewrite Nat2Z.inj_succ, Z.mul_succ_r.
  cw_go. eapply cwlp_conseq; [exact IH|]. cbv beta. intros _ c Hc. lia.
Qed.

Lemma black_tags_length : Z.of_nat (List.length black_tags) = 20. Proof. reflexivity. Qed.
Lemma black_events_length : Z.of_nat (List.length black_events) = 319. Proof. reflexivity. Qed.
Lemma blacks_length : Z.of_nat (List.length blacks) = 20. Proof. reflexivity. Qed.

Lemma c_is_black_tag_cost s : cwlp (c_is_black_tag s) (fun _ c => c <= 24 * len s + 46).
Proof.
  unfold c_is_black_tag. pose proof (len_nonneg s).
  destruct (len s <? 3); [apply cwlp_ret; lia|].
  apply cwlp_bind. eapply cwlp_conseq; [apply c_upper_without_nulls_cost|].
  intros [u|] c1 [Hc Hu].
  2:{ (* no ASCII upper case: the same scans, nothing matches *)
      cbv zeta. pose proof (len_remove_byte x00 s) as LR. pose proof (len_nonneg (remove_byte x00 s)).
      apply cwlp_bind. eapply cwlp_conseq; [apply c_scan_nomatch_cost; lia|]. cbv beta.
      rewrite black_tags_length. intros _ c2 Hc2.
      cw_go; lia. }
  specialize (Hu u eq_refl). pose proof (len_nonneg u).
  apply cwlp_bind. eapply cwlp_conseq; [apply c_existsb_eq_cost|]. cbv beta.
  rewrite black_tags_length. intros b1 c2 Hc2.
  cw_go; lia.
Qed.

Lemma c_is_black_attr_cost s : cwlp (c_is_black_attr s) (fun _ c => c <= 343 * len s + 700).
Proof.
  unfold c_is_black_attr. pose proof (len_nonneg s).
  apply cwlp_bind. eapply cwlp_conseq; [apply c_upper_without_nulls_cost|].
  intros [u|] c1 [Hc Hu].
  2:{ (* no ASCII upper case: the same comparisons and scans, nothing matches *)
      cbv zeta. pose proof (len_remove_byte x00 s) as LR. pose proof (len_nonneg (remove_byte x00 s)).
      assert (L2 : len (firstn 2 (remove_byte x00 s)) <= 2) by (rewrite len_firstn; lia).
      assert (A : cwlp (c_scan_nomatch (len (remove_byte x00 s)) blacks)
                       (fun _ c => c <= (len (remove_byte x00 s) + 2) * 20)).
      { rewrite <- blacks_length. apply c_scan_nomatch_cost. lia. }
      assert (B : cwlp (c_scan_nomatch (len (remove_byte x00 s)) black_events)
                       (fun _ c => c <= (len (remove_byte x00 s) + 2) * 319)).
      { rewrite <- black_events_length. apply c_scan_nomatch_cost. lia. }
      cw_go.
      - eapply cwlp_conseq; [exact B|]. cbv beta. intros _ c Hc3. cw_go.
        eapply cwlp_conseq; [exact A|]. cbv beta. intros _ c' Hc4. cw_go. lia.
      - cw_go. eapply cwlp_conseq; [exact A|]. cbv beta. intros _ c' Hc4. cw_go. lia. }
  specialize (Hu u eq_refl). pose proof (len_nonneg u). cbv zeta.
  destruct (len u <? 2) eqn:E2; [apply cwlp_ret; lia|].
  assert (L2 : len (firstn 2 u) <= 2) by (rewrite len_firstn; lia).
  assert (L3 : len (skipn 2 u) <= len u) by (rewrite len_skipn; lia).
  pose proof (len_nonneg (skipn 2 u)).
  assert (A : cwlp (c_assoc_type u blacks) (fun _ c => c <= (len u + 2) * 20)).
  { rewrite <- blacks_length. apply c_assoc_type_cost. }
  assert (B : cwlp (c_assoc_type (skipn 2 u) black_events) (fun _ c => c <= (len u + 2) * 319)).
  { eapply cwlp_conseq; [apply c_assoc_type_cost|]. cbv beta. rewrite black_events_length. intros _ c. nia. }
  apply cwlp_bind. destruct (5 <=? len u) eqn:E5.
  - cw_go.
    + cw_go. lia.
    + cw_go. lia.
    + eapply cwlp_conseq; [exact B|]. cbv beta. intros [v|] c Hc3; cw_go; try lia.
      eapply cwlp_conseq; [exact A|]. cbv beta. intros [v|] c' Hc4; cw_go; lia.
    + cw_go. eapply cwlp_conseq; [exact A|]. cbv beta. intros [v|] c' Hc4; cw_go; lia.
  - cw_go. eapply cwlp_conseq; [exact A|]. cbv beta. intros [v|] c' Hc4; cw_go; lia.
Qed.

(* ---------- the entity decoder ---------- *)

Lemma skipn_nth_cons {A} : forall n (s : list A) b, nth_error s n = Some b -> skipn n s = b :: skipn (S n) s.
Proof.
  induction n as [|n IH]; intros [|x s] b H; try discriminate.
  - inversion H. reflexivity.
  - cbn [nth_error] in H. cbn [skipn]. rewrite (IH s b H). reflexivity.
Qed.

Lemma nd_skipn_step c s i b : 0 <= i -> nth_error s (Z.to_nat i) = Some b -> beq b c = false ->
  nd c (skipn (Z.to_nat i) s) = 1 + nd c (skipn (Z.to_nat (i + 1)) s).
Proof.
  intros Hi N E. rewrite (skipn_nth_cons _ _ _ N). unfold nd. cbn [span]. rewrite E. cbn [negb].
  replace (Z.to_nat (i + 1)) with (S (Z.to_nat i)) by lia. reflexivity.
Qed.

Lemma nd_hit c s b : nth_error s 0 = Some b -> beq b c = true -> nd c s = 0.
Proof. destruct s as [|x s]; [discriminate|]. cbn. intros H E. inversion H; subst. unfold nd. cbn [span]. rewrite E. reflexivity. Qed.

Lemma nd_range c s : 0 <= nd c s <= len s.
Proof. apply span_range. Qed.

Lemma nd_skipn_le c s k : 0 <= k <= len s -> nd c s <= k + nd c (skipn (Z.to_nat k) s).
Proof.
  intros H. remember (Z.to_nat k) as n eqn:En. assert (Ek : k = Z.of_nat n) by lia. subst k. clear En.
  revert s H. induction n as [|n IH]; intros s H; cbn [skipn]; [lia|].
  destruct s as [|b s]; [unfold nd; cbn [span]; lia|].
  rewrite len_cons in H. unfold nd in *. cbn [span]. destruct (negb (beq b c)).
  - specialize (IH s ltac:(lia)). lia.
  - pose proof (span_range (fun b0 => negb (beq b0 c)) (skipn n s)). lia.
Qed.

Definition amp : byte := x26.

Lemma hex_val_amp site c : beq c amp = true -> hex_val site c = Ok 256.
Proof. intros E. apply beq_eq in E. subst c. reflexivity. Qed.

Lemma cwlp_hex_val site ch (Q : Z -> Z -> Prop) :
  (forall d, hex_val site ch = Ok d -> Q d 1) -> cwlp (c_hex_val site ch) Q.
Proof. intros H. unfold c_hex_val. destruct (hex_val site ch) eqn:E; cbn; auto. Qed.

(* the digit loops: either they stop normally at i' >= i after at most 3 steps per byte, or the value
   overflows and (38, 1) is returned after scanning bytes that are all different from '&' *)
Definition dloop_post (s : bytes) (i : Z) (r : Z * Z) (c : Z) : Prop :=
  (i <= snd r /\ c <= 3 * (snd r - i) + 3) \/
  (snd r = 1 /\ c <= 3 * nd amp (skipn (Z.to_nat i) s) + 3).

Lemma c_decode_hex_loop_cost fuel : forall s i val, 0 <= i ->
  cwlp (c_decode_hex_loop fuel s i val) (dloop_post s i).
Proof.
  induction fuel as [|fuel IH]; intros s i val Hi; cbn [c_decode_hex_loop].
  - destruct (i <? len s); [exact I|]. apply cwlp_ret. left. cbn [snd]. lia.
  - pose proof (nd_range amp (skipn (Z.to_nat i) s)).
    cw_go; try (left; cbn [snd]; lia).
    apply cwlp_hex_val. intros d Hd. cw_go; try (left; cbn [snd]; lia).
    + right. cbn [snd]. lia.
    + assert (NA : beq b amp = false).
      { destruct (beq b amp) eqn:EA; [|reflexivity]. rewrite (hex_val_amp _ _ EA) in Hd. inversion Hd. lia. }
      pose proof (nd_skipn_step amp s i b Hi ltac:(assumption) NA) as ST.
      eapply cwlp_conseq; [apply IH; lia|]. intros [v i'] c' [[A B]|[A B]]; cbn [snd] in *; [left|right]; cbn [snd]; lia.
Qed.

Lemma c_decode_dec_loop_cost fuel : forall s i val, 0 <= i ->
  cwlp (c_decode_dec_loop fuel s i val) (dloop_post s i).
Proof.
  induction fuel as [|fuel IH]; intros s i val Hi; cbn [c_decode_dec_loop].
  - destruct (i <? len s); [exact I|]. apply cwlp_ret. left. cbn [snd]. lia.
  - pose proof (nd_range amp (skipn (Z.to_nat i) s)).
    cw_go; try (left; cbn [snd]; lia).
    + right. cbn [snd]. lia.
    + assert (NA : beq b amp = false).
      { destruct (beq b amp) eqn:EA; [|reflexivity]. unfold beq in EA. change (code amp) with 38 in EA. lia. }
      pose proof (nd_skipn_step amp s i b Hi ltac:(assumption) NA) as ST.
      eapply cwlp_conseq; [apply IH; lia|]. intros [v i'] c' [[A B]|[A B]]; cbn [snd] in *; [left|right]; cbn [snd]; lia.
Qed.

Definition decode_post (s : bytes) (r : Z * Z) (c : Z) : Prop :=
  (len s = 0 /\ snd r = 0 /\ c <= 1) \/
  (1 <= snd r /\ c <= 3 * snd r + 6) \/
  (snd r = 1 /\ nd amp s = 0 /\ c <= 3 * nd amp (skipn 1 s) + 12).

Lemma beq_amp_false b c : beq b c = true -> beq c amp = false -> beq b amp = false.
Proof. intros E N. apply beq_eq in E. subst b. exact N. Qed.

Lemma c_html_decode_byte_at_cost s : cwlp (c_html_decode_byte_at s) (decode_post s).
Proof.
  unfold c_html_decode_byte_at. unfold decode_post.
  cw_go; try (right; left; cbn [snd]; lia); try (left; cbn [snd]; lia).
  - (* hex *)
    apply cwlp_hex_val. intros d Hd. cw_go; try (right; left; cbn [snd]; lia).
    assert (N0 : nd amp s = 0).
    { match goal with H : negb (beq ?x x26) || _ = false, N : nth_error s (Z.to_nat 0) = Some ?x |- _ =>
        apply (nd_hit amp s x N); destruct (beq x x26) eqn:E0; [exact E0|try rewrite E0 in H; cbn in H; discriminate H] end. }
    assert (N1 : beq b0 amp = false).
    { match goal with H : negb (beq b0 ?y) || _ = false |- _ =>
        destruct (beq b0 y) eqn:E1; [|try rewrite E1 in H; cbn in H; discriminate H] end.
      eapply beq_amp_false; [exact E1|reflexivity]. }
    assert (N2 : beq b1 amp = false).
    { match goal with H : beq b1 x78 || beq b1 x58 = true |- _ => apply orb_true_iff in H; destruct H as [H|H] end;
        (eapply beq_amp_false; [eassumption|reflexivity]). }
    assert (N3 : beq b2 amp = false).
    { destruct (beq b2 amp) eqn:EA; [|reflexivity]. rewrite (hex_val_amp _ _ EA) in Hd. inversion Hd. lia. }
    pose proof (nd_skipn_step amp s 1 b0 ltac:(lia) ltac:(assumption) N1) as S1.
    pose proof (nd_skipn_step amp s 2 b1 ltac:(lia) ltac:(assumption) N2) as S2.
    pose proof (nd_skipn_step amp s 3 b2 ltac:(lia) ltac:(assumption) N3) as S3.
    change (Z.to_nat 1) with 1%nat in *. change (1 + 1) with 2 in *. change (2 + 1) with 3 in *. change (3 + 1) with 4 in *.
    eapply cwlp_conseq; [apply c_decode_hex_loop_cost; lia|].
    intros [v i'] c' [[A B]|[A B]]; cbn [snd] in *; [right; left|right; right]; cbn [snd]; lia.
  - (* dec *)
    assert (N0 : nd amp s = 0).
    { match goal with H : negb (beq ?x x26) || _ = false, N : nth_error s (Z.to_nat 0) = Some ?x |- _ =>
        apply (nd_hit amp s x N); destruct (beq x x26) eqn:E0; [exact E0|try rewrite E0 in H; cbn in H; discriminate H] end. }
    assert (N1 : beq b0 amp = false).
    { match goal with H : negb (beq b0 ?y) || _ = false |- _ =>
        destruct (beq b0 y) eqn:E1; [|try rewrite E1 in H; cbn in H; discriminate H] end.
      eapply beq_amp_false; [exact E1|reflexivity]. }
    assert (N2 : beq b1 amp = false).
    { destruct (beq b1 amp) eqn:EA; [|reflexivity]. unfold beq in EA. change (code amp) with 38 in EA. lia. }
    pose proof (nd_skipn_step amp s 1 b0 ltac:(lia) ltac:(assumption) N1) as S1.
    pose proof (nd_skipn_step amp s 2 b1 ltac:(lia) ltac:(assumption) N2) as S2.
    change (Z.to_nat 1) with 1%nat in *. change (1 + 1) with 2 in *. change (2 + 1) with 3 in *.
    eapply cwlp_conseq; [apply c_decode_dec_loop_cost; lia|].
    intros [v i'] c' [[A B]|[A B]]; cbn [snd] in *; [right; left|right; right]; cbn [snd]; lia.
Qed.



(* the decoding loop of htmlEncodeStartsWith.  When a numeric reference overflows, the decoder has
   scanned a run of digits but consumes only the '&'; the digits are then visited once more, one
   at a time.  Amortised with the distance to the next '&': 14 steps per byte. *)
Definition KD : Z := 14.

Lemma c_starts_with_loop_cost fuel : forall rest first acc,
  cwlp (c_starts_with_loop fuel rest first acc)
       (fun res c => c + 3 * nd amp rest <= KD * len rest + 2 /\ len res <= len acc + len rest).
Proof.
  unfold KD.
  induction fuel as [|fuel IH]; intros rest first acc; cbn [c_starts_with_loop];
    pose proof (nd_range amp rest); pose proof (len_nonneg rest).
  - destruct (0 <? len rest) eqn:E; [exact I|]. apply cwlp_ret. unfold len in *. rewrite rev_length. lia.
  - apply cwlp_bind, cwlp_tick. destruct (0 <? len rest) eqn:E.
    2:{ apply cwlp_ret. unfold len in *. rewrite rev_length. lia. }
    apply cwlp_bind. eapply cwlp_conseq; [apply c_html_decode_byte_at_cost|].
    intros [cb k] c1 DP. unfold decode_post in DP. cbn [snd] in DP.
    apply cwlp_bind, cwlp_drop. intros Hk.
    assert (LR : len (skipn (Z.to_nat k) rest) = len rest - k) by (apply len_skipn_le; lia).
    pose proof (nd_skipn_le amp rest k Hk) as NL.
    assert (G : forall first' acc', len acc' <= 1 + len acc ->
      cwlp (c_starts_with_loop fuel (skipn (Z.to_nat k) rest) first' acc')
        (fun (b : bytes) (c' : Z) =>
         1 + (c1 + (1 + c')) + 3 * nd amp rest <= 14 * len rest + 2 /\ len b <= len acc + len rest)).
    { intros first' acc' LA. eapply cwlp_conseq; [apply IH|]. cbv beta. intros res c' [C1 C2].
      rewrite LR in *. destruct DP as [(A & B & C)|[(A & B)|(A & B & C)]].
      - lia.
      - lia.
      - subst k. change (Z.to_nat 1) with 1%nat in *. lia. }
    destruct (first && (cb <=? 32)); [apply G; lia|].
    destruct ((cb =? 0) || (cb =? 10)); [apply G; lia|].
    apply G. rewrite len_cons. lia.
Qed.

Lemma c_html_encode_starts_with_cost a b :
  cwlp (c_html_encode_starts_with a b) (fun _ c => c <= 15 * len b + len a + 3).
Proof.
  unfold c_html_encode_starts_with. apply cwlp_bind.
  eapply cwlp_conseq; [apply c_starts_with_loop_cost|]. cbv beta. intros dec c1 [C1 C2].
  unfold c_contains. apply cwlp_pure. pose proof (index_cost_le dec a). pose proof (nd_range amp b).
  unfold KD in *. change (len []) with 0 in *. lia.
Qed.

Lemma c_trim_left_junk_cost s :
  cwlp (c_trim_left_junk s) (fun t c => c <= len s /\ len t <= len s).
Proof.
  induction s as [|b s IH]; cbn [c_trim_left_junk]; [apply cwlp_ret; change (len []) with 0; lia|].
  rewrite len_cons. pose proof (len_nonneg s). cw_go.
  - eapply cwlp_conseq; [exact IH|]. cbv beta. intros t c [A B]. lia.
  - rewrite len_cons. lia.
Qed.

Fixpoint sum_len (l : list bytes) : Z := match l with [] => 0 | u :: l' => len u + sum_len l' end.

Lemma c_any_scheme_cost urls str :
  cwlp (c_any_scheme urls str)
       (fun _ c => c <= (15 * len str + 4) * Z.of_nat (List.length urls) + sum_len urls).
Proof.
  pose proof (len_nonneg str).
  induction urls as [|u urls IH]; cbn [c_any_scheme List.length sum_len]; [apply cwlp_ret; lia|].
  rewrite Nat2Z.inj_succ, Z.mul_succ_r. pose proof (len_nonneg u).
  assert (0 <= sum_len urls) by (clear; induction urls as [|x l IHl]; cbn [sum_len]; [lia|pose proof (len_nonneg x); lia]).
  apply cwlp_bind, cwlp_tick. apply cwlp_bind.
  eapply cwlp_conseq; [apply c_html_encode_starts_with_cost|]. cbv beta. intros r c1 C1.
  destruct r; [apply cwlp_ret; nia|].
  eapply cwlp_conseq; [exact IH|]. cbv beta. intros _ c2 C2. lia.
Qed.

Lemma c_is_black_url_cost s : cwlp (c_is_black_url s) (fun _ c => c <= 61 * len s + 43).
Proof.
  unfold c_is_black_url. apply cwlp_bind.
  eapply cwlp_conseq; [apply c_trim_left_junk_cost|]. cbv beta. intros t c1 [C1 C2].
  eapply cwlp_conseq; [apply c_any_scheme_cost|]. cbv beta. intros _ c2.
  change (Z.of_nat (List.length url_schemes)) with 4. change (sum_len url_schemes) with 27.
  pose proof (len_nonneg t). lia.
Qed.


(* ---------- classify ---------- *)

Definition KC : Z := 343.
Definition KC0 : Z := 710.

Ltac cw_step2 :=
  lazymatch goal with
  | |- cwlp (c_is_black_tag _) _ => eapply cwlp_conseq; [apply c_is_black_tag_cost | cbv beta; intros ? ? ?]
  | |- cwlp (c_is_black_attr _) _ => eapply cwlp_conseq; [apply c_is_black_attr_cost | cbv beta; intros ? ? ?]
  | |- cwlp (c_is_black_url _) _ => eapply cwlp_conseq; [apply c_is_black_url_cost | cbv beta; intros ? ? ?]
  | |- cwlp (c_upper_without_nulls _) _ =>
      eapply cwlp_conseq; [apply c_upper_without_nulls_cost | cbv beta; intros ? ? [? ?]]
  | |- cwlp (match ?x with Some _ => _ | None => _ end) _ => destruct x eqn:?
  | |- _ => cw_step
  end.


Ltac note_remove :=
  repeat match goal with
         | |- context [len (remove_byte ?c ?w)] => learn (len_remove_byte c w)
         end.

Lemma c_classify_cost h attr : 0 <= tok_len h ->
  cwlp (c_classify h attr) (fun _ c => c <= KC * tok_len h + KC0).
Proof.
  intros TL. unfold c_classify, KC, KC0. cbv beta zeta.
  repeat (cw_step2; cbv beta zeta).
  all: try lia.
  all: try match goal with H : forall u, Some ?x = Some u -> _ |- _ => specialize (H x eq_refl) end.
  all: note_cost; note_firstn; note_remove; lia.
Qed.

(* ====================================================================== *)
(* Part (c): the whole scan                                                *)
(* ====================================================================== *)

Lemma ok_pos h : h5_ok h -> 0 <= hpos h <= hlen h.
Proof. unfold h5_ok. destruct (hstate h); cbn [st_ok]; lia. Qed.

Lemma c_h5_next_model h r c : c_h5_next h = Ok (r, c) -> h5_next h = Ok r.
Proof. intros E. rewrite <- erase_h5_next, E. reflexivity. Qed.

(* what is left to pay for the tokenizer itself *)
Definition Ah (h : h5) : Z := if is_seof (hstate h) then 0 else KH * (hlen h - hpos h).

(* per token: the additive constants of one step and one classification, and the loop tick *)
Definition KT : Z := 1 + KS + KC0.
(* the last, token-less step *)
Definition KE : Z := 1 + KS.

Lemma c_xss_loop_cost fuel : forall h attr,
  h5_ok h -> 0 <= tok_off h + tok_len h <= hlen h ->
  cwlp (c_xss_loop fuel h attr)
       (fun _ c => c <= Ah h + KC * (hlen h - (tok_off h + tok_len h)) + KT * Phi h + KE).
Proof.
  induction fuel as [|fuel IH]; intros h attr K TE; cbn [c_xss_loop]; [exact I|].
  pose proof (Phi_nonneg h K) as PN. pose proof (ok_pos h K) as PP.
  apply cwlp_bind, cwlp_tick. apply cwlp_bind.
  destruct (is_seof (hstate h)) eqn:SE.
  - assert (E : hstate h = SEOF) by (destruct (hstate h); try discriminate SE; reflexivity).
    rewrite (c_h5_next_cost_eof h E). cbn [cwlp]. apply cwlp_ret.
    unfold Ah, KT, KE, KS, KC, KC0 in *. rewrite SE. lia.
  - assert (NE : hstate h <> SEOF) by (intros E; rewrite E in SE; discriminate SE).
    pose proof (c_h5_next_cost h K NE) as CN.
    destruct (c_h5_next h) as [[[more h'] c1]| | |] eqn:EN; cbn [cwlp]; try exact I.
    cbn [cwlp] in CN.
    pose proof (h5_next_spec h K) as NP. rewrite (c_h5_next_model h _ _ EN) in NP. cbn [wp] in NP.
    destruct NP as (P1 & P2 & P3).
    assert (EL : hlen h' = hlen h) by (unfold hlen; rewrite P1; reflexivity).
    unfold CPost, CPostAt in CN. cbn [fst snd] in CN.
    destruct more; cbn [andb] in CN.
    2:{ apply cwlp_ret. unfold Ah, KT, KE, KS, KC, KC0, KH in *. rewrite SE. lia. }
    destruct (P3 eq_refl) as (A1 & A2 & A3 & A4 & A5).
    pose proof (ok_pos h' P2) as PP'. pose proof (Phi_nonneg h' P2) as PN'.
    assert (AH : c1 + Ah h' <= Ah h + KS).
    { unfold Ah. rewrite SE. destruct (is_seof (hstate h')); cbn [negb] in CN; rewrite ?EL; unfold KH in *; lia. }
    assert (AN : 0 <= Ah h') by (unfold Ah, KH; destruct (is_seof (hstate h')); lia).
    apply cwlp_bind. eapply cwlp_conseq; [apply (c_classify_cost h' attr A2)|]. cbv beta.
    intros [r attr'] c2 C2. destruct r as [b|].
    + apply cwlp_ret. rewrite EL in *. unfold KT, KE, KS, KC, KC0 in *. lia.
    + eapply cwlp_conseq; [apply (IH h' attr' P2); lia|]. cbv beta. intros _ c3 C3.
      rewrite EL in *. unfold KT, KE, KS, KC, KC0 in *. lia.
Qed.

(* explicit constants of the final bound *)
Definition K1 : Z := KH + KC + KT.
Definition K0 : Z := KT + KE.

Theorem c_xss_ctx_cost : forall s fl, 0 <= fl <= 4 -> cost_of (c_xss_ctx s fl) <= K1 * len s + K0.
Proof.
  intros s fl H. destruct (h5_init_ok s fl H) as [K B]. pose proof (len_nonneg s).
  apply cwlp_cost; [unfold K1, K0, KT, KE, KS, KC, KC0, KH; lia|].
  unfold c_xss_ctx. eapply cwlp_conseq; [apply c_xss_loop_cost; [exact K|]|].
  - unfold h5_init, hlen. cbn [tok_off tok_len hs]. lia.
  - cbv beta. intros _ c C.
    assert (A : Ah (h5_init s fl) <= KH * len s).
    { unfold Ah, h5_init, hlen. cbn [hs hpos hstate]. unfold KH. destruct (is_seof _); lia. }
    assert (T : tok_off (h5_init s fl) + tok_len (h5_init s fl) = 0) by reflexivity.
    assert (L : hlen (h5_init s fl) = len s) by reflexivity.
    rewrite T, L in C. unfold K1, K0, KT, KE, KS, KC, KC0, KH in *. lia.
Qed.

Lemma cost_nonneg_xss_ctx s fl : 0 <= fl <= 4 -> 0 <= K1 * len s + K0.
Proof. intros _. pose proof (len_nonneg s). unfold K1, K0, KT, KE, KS, KC, KC0, KH. lia. Qed.

Theorem c_is_xss_cost : forall s, cost_of (c_is_xss s) <= 5 * K1 * len s + 5 * K0.
Proof.
  intros s. pose proof (cost_nonneg_xss_ctx s 0 ltac:(lia)) as NN.
  pose proof (c_xss_ctx_cost s 0 ltac:(lia)) as C0.
  pose proof (c_xss_ctx_cost s 1 ltac:(lia)) as C1.
  pose proof (c_xss_ctx_cost s 2 ltac:(lia)) as C2.
  pose proof (c_xss_ctx_cost s 3 ltac:(lia)) as C3.
  pose proof (c_xss_ctx_cost s 4 ltac:(lia)) as C4.
  unfold c_is_xss.
  change c_html5_flags_data_state with 0. change c_html5_flags_value_no_quote with 1.
  change c_html5_flags_value_single_quote with 2. change c_html5_flags_value_double_quote with 3.
  change c_html5_flags_value_back_quote with 4.
  unfold K1, K0, KT, KE, KS, KC, KC0, KH in *.
  destruct (c_xss_ctx s 0) as [[a0 c0]| | |]; cbn [cbind cost_of] in *; try lia.
  destruct a0; [cbn [cost_of cret]; lia|].
  destruct (c_xss_ctx s 1) as [[a1 c1]| | |]; cbn [cbind cost_of] in *; try lia.
  destruct a1; [cbn [cost_of cret]; lia|].
  destruct (c_xss_ctx s 2) as [[a2 c2]| | |]; cbn [cbind cost_of] in *; try lia.
  destruct a2; [cbn [cost_of cret]; lia|].
  destruct (c_xss_ctx s 3) as [[a3 c3]| | |]; cbn [cbind cost_of] in *; try lia.
  destruct a3; [cbn [cost_of cret]; lia|].
  destruct (c_xss_ctx s 4) as [[a4 c4]| | |]; cbn [cbind cost_of] in *; try lia.
Qed.

(* ---------- the requested statement shapes ---------- *)

(* (b) one tokenizer step, as an inequality on the returned cost *)
Theorem c_h5_next_bound h more h' c : h5_ok h -> c_h5_next h = Ok ((more, h'), c) ->
  c <= KH * (hlen h - hpos h) + KS /\
  (more = true -> hstate h' <> SEOF -> c <= KH * (hpos h' - hpos h) + KS).
Proof.
  intros K E. pose proof (ok_pos h K) as PP.
  destruct (is_seof (hstate h)) eqn:SE.
  - assert (E0 : hstate h = SEOF) by (destruct (hstate h); try discriminate SE; reflexivity).
    rewrite (c_h5_next_cost_eof h E0) in E. inversion E; subst. unfold KH, KS. split; [lia|discriminate].
  - assert (NE : hstate h <> SEOF) by (intros E0; rewrite E0 in SE; discriminate SE).
    pose proof (c_h5_next_cost h K NE) as CN. rewrite E in CN. cbn [cwlp] in CN.
    pose proof (h5_next_spec h K) as NP. rewrite (c_h5_next_model h _ _ E) in NP. cbn [wp] in NP.
    destruct NP as (P1 & P2 & P3). pose proof (ok_pos h' P2) as PP'.
    assert (EL : hlen h' = hlen h) by (unfold hlen; rewrite P1; reflexivity).
    unfold CPost, CPostAt in CN. cbn [fst snd] in CN.
    destruct more; cbn [andb] in CN.
    + destruct (is_seof (hstate h')) eqn:SE'; cbn [negb] in CN.
      * split; [lia|]. intros _ N. destruct (hstate h'); try discriminate SE'. congruence.
      * unfold KH in *. split; [lia|]. intros _ _. lia.
    + split; [lia|discriminate].
Qed.

Theorem c_h5_next_cost_le h : h5_ok h -> cost_of (c_h5_next h) <= KH * (hlen h - hpos h) + KS.
Proof.
  intros K. pose proof (ok_pos h K). destruct (c_h5_next h) as [[[more h'] c]| | |] eqn:E; cbn [cost_of];
    try (unfold KH, KS; lia).
  apply (c_h5_next_bound h more h' c K E).
Qed.

(* (b) one classification *)
Theorem c_classify_bound h attr : 0 <= tok_len h -> cost_of (c_classify h attr) <= KC * tok_len h + KC0.
Proof.
  intros H. apply cwlp_cost; [unfold KC, KC0; lia|]. apply (c_classify_cost h attr H).
Qed.

(* the tokenizer alone *)
Lemma c_h5_tokens_loop_cost fuel : forall h acc,
  h5_ok h ->
  cwlp (c_h5_tokens_loop fuel h acc) (fun _ c => c <= Ah h + (1 + KS) * Phi h + KE).
Proof.
  induction fuel as [|fuel IH]; intros h acc K; cbn [c_h5_tokens_loop]; [exact I|].
  pose proof (Phi_nonneg h K) as PN. pose proof (ok_pos h K) as PP.
  apply cwlp_bind, cwlp_tick. apply cwlp_bind.
  destruct (is_seof (hstate h)) eqn:SE.
  - assert (E : hstate h = SEOF) by (destruct (hstate h); try discriminate SE; reflexivity).
    rewrite (c_h5_next_cost_eof h E). cbn [cwlp]. apply cwlp_ret.
    unfold Ah, KE, KS in *. rewrite SE. lia.
  - assert (NE : hstate h <> SEOF) by (intros E; rewrite E in SE; discriminate SE).
    pose proof (c_h5_next_cost h K NE) as CN.
    destruct (c_h5_next h) as [[[more h'] c1]| | |] eqn:EN; cbn [cwlp]; try exact I.
    cbn [cwlp] in CN.
    pose proof (h5_next_spec h K) as NP. rewrite (c_h5_next_model h _ _ EN) in NP. cbn [wp] in NP.
    destruct NP as (P1 & P2 & P3).
    assert (EL : hlen h' = hlen h) by (unfold hlen; rewrite P1; reflexivity).
    unfold CPost, CPostAt in CN. cbn [fst snd] in CN.
    destruct more; cbn [andb] in CN.
    2:{ apply cwlp_ret. unfold Ah, KE, KS, KH in *. rewrite SE. lia. }
    destruct (P3 eq_refl) as (A1 & A2 & A3 & A4 & A5).
    pose proof (ok_pos h' P2) as PP'. pose proof (Phi_nonneg h' P2) as PN'.
    assert (AH : c1 + Ah h' <= Ah h + KS).
    { unfold Ah. rewrite SE. destruct (is_seof (hstate h')); cbn [negb] in CN; rewrite ?EL; unfold KH in *; lia. }
    eapply cwlp_conseq; [apply (IH h' _ P2)|]. cbv beta. intros _ c3 C3.
    unfold KE, KS in *. lia.
Qed.

Theorem c_h5_tokens_cost : forall s fl, 0 <= fl <= 4 ->
  cost_of (c_h5_tokens s fl) <= (KH + KS + 1) * len s + (2 * KS + 2).
Proof.
  intros s fl H. destruct (h5_init_ok s fl H) as [K B]. pose proof (len_nonneg s).
  apply cwlp_cost; [unfold KS, KH; lia|].
  unfold c_h5_tokens. eapply cwlp_conseq; [apply c_h5_tokens_loop_cost; exact K|].
  cbv beta. intros _ c C.
  assert (A : Ah (h5_init s fl) <= KH * len s).
  { unfold Ah, h5_init, hlen. cbn [hs hpos hstate]. unfold KH. destruct (is_seof _); lia. }
  unfold KE, KS, KH in *. lia.
Qed.
