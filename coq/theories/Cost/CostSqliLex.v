(* CostSqliLex: the cost-instrumented twin of SqliLex.v (C09, SQL tokenizer).

   Every function `f` of SqliLex.v that does work has a twin `c_f` in the cost
   monad of CostBase.v.  The twin mirrors the model line by line: same control
   flow, same panic sites, every primitive replaced by its instrumented
   version, plus
     - `tick 1` at the entry of every lexer,
     - `tick 1` at every iteration of every loop (string_core_loop,
       word_split_loop, tokenize_loop, tokens_loop, the backward backslash
       count),
     - `len key + 1` for every keyword look-up / upper-casing comparison
       (strings.ToUpper + hashing the map key).
   Definitions only; erasure and bounds are in CostSqliLexProofs.v. *)
From Coq Require Import List ZArith String Bool.
From Coq.Strings Require Import Byte.
From LI Require Import Prelude Base SqliLex Cost.CostBase.
From LIGen Require Import Tables Dispatch Consts.
Import ListNotations.
Local Open Scope Z_scope.
Local Open Scope cost_scope.

(* ---------- sqli_token.go ---------- *)

Definition c_search_keyword (key : bytes) : cres byte := c_linear key (search_keyword key).

Definition c_assign (t : token) (ty : byte) (p length : Z) (value : bytes) : cres token :=
  let last := if length <? c_token_size then length else c_token_size - 1 in
  v <-- c_take "assign" value last ;;
  cret (mkTok p last (t_count t) ty (t_open t) (t_close t) v).

(* one step per byte looked at: the backslashes counted, plus the byte (or the
   start of the string) that stops the count *)
Fixpoint c_trailing_bs_count (rev_str : bytes) : cres Z :=
  match rev_str with
  | b :: r => _ <-- tick 1 ;;
              if beq b x5c then (n <-- c_trailing_bs_count r ;; cret (1 + n)) else cret 0
  | [] => _ <-- tick 1 ;; cret 0
  end.
Definition c_is_backslash_escaped (str : bytes) : cres bool :=
  n <-- c_trailing_bs_count (rev str) ;;
  cret (negb (Z.rem n 2 =? 0)).

Definition c_is_double_delimiter_escaped (str : bytes) : cres bool :=
  pure_c 1 (is_double_delimiter_escaped str).

Fixpoint c_string_core_loop (fuel : nat) (s : bytes) (start k : Z) (delim : byte)
  : cres (option Z) :=
  match fuel with
  | O => OutOfFuel
  | S fuel' =>
      _ <-- tick 1 ;;
      str <-- c_drop "parseStringCore:str" s k ;;
      index <-- c_index_byte str delim ;;
      if index =? -1 then cret None
      else
        let k := k + index in
        str <-- c_drop "parseStringCore:str[index:]" s k ;;
        before <-- c_slice "parseStringCore:escaped" s start k ;;
        esc <-- c_is_backslash_escaped before ;;
        if (esc : bool) then
          (_ <-- c_drop "parseStringCore:str[1:]" str 1 ;; c_string_core_loop fuel' s start (k + 1) delim)
        else
          dd <-- c_is_double_delimiter_escaped str ;;
          if (dd : bool) then
            (_ <-- c_drop "parseStringCore:str[2:]" str 2 ;; c_string_core_loop fuel' s start (k + 2) delim)
          else cret (Some k)
  end.

Definition c_parse_string_core (t : token) (s : bytes) (length p offset : Z) (delim : byte)
  : cres (token * Z) :=
  _ <-- c_drop "parseStringCore:s[pos+offset:]" s (p + offset) ;;
  let t := set_open t (if 0 <? offset then delim else x00) in
  r <-- c_string_core_loop (S (List.length s)) s (p + offset) (p + offset) delim ;;
  content <-- c_drop "parseStringCore:s[pos+offset:]" s (p + offset) ;;
  match r with
  | None =>
      t <-- c_assign t b_sqli_token_type_string (p + offset) (length - p - offset) content ;;
      cret (set_close t x00, length)
  | Some q =>
      t <-- c_assign t b_sqli_token_type_string (p + offset) (q - (p + offset)) content ;;
      cret (set_close t delim, q + 1)
  end.

Definition c_is_unary_op (t : token) : cres bool :=
  if negb (beq (t_cat t) b_sqli_token_type_operator) then cret false
  else if t_len t =? 1 then
    c <-- c_get "isUnaryOp:val[0]" (t_val t) 0 ;;
    cret (beq c x2b || beq c x2d || beq c x21 || beq c x7e)
  else if t_len t =? 2 then
    c0 <-- c_get "isUnaryOp:val[0]" (t_val t) 0 ;;
    if beq c0 x21 then (c1 <-- c_get "isUnaryOp:val[1]" (t_val t) 1 ;; cret (beq c1 x21)) else cret false
  else if t_len t =? 3 then
    v <-- c_take "isUnaryOp:val[:3]" (t_val t) 3 ;;
    c_linear v (to_upper_cmp (bs "NOT") v)
  else cret false.

Definition c_is_arithmetic_op (t : token) : cres bool :=
  if beq (t_cat t) b_sqli_token_type_operator && (t_len t =? 1) then
    c <-- c_get "isArithmeticOp:val[0]" (t_val t) 0 ;;
    cret (beq c x2a || beq c x2f || beq c x2b || beq c x2d || beq c x25)
  else cret false.

(* ---------- sqli_helpers.go ---------- *)

Definition c_str_len_spn (s : bytes) (length : Z) (accept : bytes) : cres Z :=
  c_span_len "strLenSpn" (fun b => mem b accept) s length.
Definition c_str_len_cspn (s : bytes) (length : Z) (accept : bytes) : cres Z :=
  c_span_len "strLenCSpn" (fun b => negb (mem b accept)) s length.

Definition c_is_mysql_comment (s : bytes) (p : Z) : cres bool :=
  if len s <=? p + 2 then cret false
  else (c <-- c_get "isMysqlComment" s (p + 2) ;; cret (beq c x21)).

(* ---------- sqli_parse.go ---------- *)

Definition c_lexer := sqlst -> token -> cres (sqlst * token * Z).

Definition c_input_from (site : string) (s : sqlst) (p : Z) : cres bytes := c_drop site (input s) p.
Definition c_at_ (site : string) (s : sqlst) (p : Z) : cres byte := c_get site (input s) p.

Definition c_parse_eol_comment : c_lexer := fun s t =>
  _ <-- tick 1 ;;
  rest <-- c_input_from "parseEolComment" s (pos s) ;;
  idx <-- c_index_byte rest x0a ;;
  if idx =? -1 then
    t <-- c_assign t b_sqli_token_type_comment (pos s) (slen s - pos s) rest ;;
    cret (s, t, slen s)
  else
    t <-- c_assign t b_sqli_token_type_comment (pos s) idx rest ;;
    cret (s, t, pos s + idx + 1).

Definition c_parse_other : c_lexer := fun s t =>
  _ <-- tick 1 ;;
  rest <-- c_input_from "parseOther" s (pos s) ;;
  t <-- c_assign t b_sqli_token_type_unknown (pos s) 1 rest ;;
  cret (s, t, pos s + 1).

Definition c_parse_white : c_lexer := fun s t =>
  _ <-- tick 1 ;;
  cret (s, t, pos s + 1).

Definition c_parse_operator1 : c_lexer := fun s t =>
  _ <-- tick 1 ;;
  rest <-- c_input_from "parseOperator1" s (pos s) ;;
  t <-- c_assign t b_sqli_token_type_operator (pos s) 1 rest ;;
  cret (s, t, pos s + 1).

Definition c_parse_byte : c_lexer := fun s t =>
  _ <-- tick 1 ;;
  c <-- c_at_ "parseByte" s (pos s) ;;
  rest <-- c_input_from "parseByte" s (pos s) ;;
  t <-- c_assign t c (pos s) 1 rest ;;
  cret (s, t, pos s + 1).

Definition c_parse_hash : c_lexer := fun s t =>
  _ <-- tick 1 ;;
  let s := set_stats s (mkStats (n_ddx (st s)) (n_hash (st s) + 1) (n_folds (st s)) (n_tokens (st s))) in
  if has_flag s c_sqli_flag_sqlmysql then
    let s := set_stats s (mkStats (n_ddx (st s)) (n_hash (st s) + 1) (n_folds (st s)) (n_tokens (st s))) in
    c_parse_eol_comment s t
  else
    t <-- c_assign t b_sqli_token_type_operator (pos s) 1 (bs "#") ;;
    cret (s, t, pos s + 1).

Definition c_parse_dash : c_lexer := fun s t =>
  _ <-- tick 1 ;;
  let p := pos s in
  c1 <-- (if p + 2 <? slen s then
            (a <-- c_at_ "parseDash:1" s (p + 1) ;;
             if beq a x2d then (b <-- c_at_ "parseDash:1" s (p + 2) ;; cret (is_byte_white b)) else cret false)
          else cret false) ;;
  if (c1 : bool) then c_parse_eol_comment s t else
  c2 <-- (if p + 2 =? slen s then (a <-- c_at_ "parseDash:2" s (p + 1) ;; cret (beq a x2d)) else cret false) ;;
  if (c2 : bool) then c_parse_eol_comment s t else
  c3 <-- (if p + 1 <? slen s then
            (a <-- c_at_ "parseDash:3" s (p + 1) ;; cret (beq a x2d && has_flag s c_sqli_flag_sqlansi))
          else cret false) ;;
  if (c3 : bool) then
    let s := set_stats s (mkStats (n_ddx (st s) + 1) (n_hash (st s)) (n_folds (st s)) (n_tokens (st s))) in
    c_parse_eol_comment s t
  else
    t <-- c_assign t b_sqli_token_type_operator p 1 (bs "-") ;;
    cret (s, t, p + 1).

Definition c_parse_slash : c_lexer := fun s t =>
  _ <-- tick 1 ;;
  let p := pos s in
  not_comment <-- (if p + 1 =? slen s then cret true
                   else (a <-- c_at_ "parseSlash" s (p + 1) ;; cret (negb (beq a x2a)))) ;;
  if (not_comment : bool) then c_parse_operator1 s t else
  body <-- c_input_from "parseSlash:input[pos+2:]" s (p + 2) ;;
  idx <-- c_index body (bs "*/") ;;
  let length := if idx =? -1 then slen s - p else 2 + idx + 2 in
  nested <-- (if negb (idx =? -1) then
                (inner <-- c_slice "parseSlash:nested" (input s) (p + 2) (p + 2 + idx + 1) ;;
                 c_contains inner (bs "/*"))
              else cret false) ;;
  ctype <-- (if (nested : bool) then cret b_sqli_token_type_evil
             else (m <-- c_is_mysql_comment (input s) p ;;
                   cret (if (m : bool) then b_sqli_token_type_evil else b_sqli_token_type_comment))) ;;
  rest <-- c_input_from "parseSlash" s p ;;
  t <-- c_assign t ctype p length rest ;;
  cret (s, t, p + length).

Definition c_parse_backslash : c_lexer := fun s t =>
  _ <-- tick 1 ;;
  let p := pos s in
  isN <-- (if p + 1 <? slen s then (a <-- c_at_ "parseBackSlash" s (p + 1) ;; cret (beq a x4e)) else cret false) ;;
  rest <-- c_input_from "parseBackSlash" s p ;;
  if (isN : bool) then
    t <-- c_assign t b_sqli_token_type_number p 2 rest ;; cret (s, t, p + 2)
  else
    t <-- c_assign t b_sqli_token_type_backslash p 1 rest ;; cret (s, t, p + 1).

Definition c_parse_operator2 : c_lexer := fun s t =>
  _ <-- tick 1 ;;
  let p := pos s in
  if slen s <=? p + 1 then c_parse_operator1 s t else
  three <-- (if p + 2 <? slen s then
               (a <-- c_at_ "parseOperator2" s p ;;
                if beq a x3c then
                  (b <-- c_at_ "parseOperator2" s (p + 1) ;;
                   if beq b x3d then (c <-- c_at_ "parseOperator2" s (p + 2) ;; cret (beq c x3e)) else cret false)
                else cret false)
             else cret false) ;;
  rest <-- c_input_from "parseOperator2" s p ;;
  if (three : bool) then
    t <-- c_assign t b_sqli_token_type_operator p 3 rest ;; cret (s, t, p + 3)
  else
    two <-- c_slice "parseOperator2:input[pos:pos+2]" (input s) p (p + 2) ;;
    ch <-- c_search_keyword two ;;
    if negb (beq ch x00) then
      t <-- c_assign t ch p 2 rest ;; cret (s, t, p + 2)
    else
      a <-- c_at_ "parseOperator2" s p ;;
      if beq a x3a then
        t <-- c_assign t b_sqli_token_type_colon p 1 rest ;; cret (s, t, p + 1)
      else c_parse_operator1 s t.

Definition c_parse_string : c_lexer := fun s t =>
  _ <-- tick 1 ;;
  d <-- c_at_ "parseString" s (pos s) ;;
  '(t, np) <-- c_parse_string_core t (input s) (slen s) (pos s) 1 d ;;
  cret (s, t, np).

Fixpoint c_word_split_loop (fuel : nat) (val : bytes) (i n : Z) : cres (option (Z * byte)) :=
  match fuel with
  | O => if i <? n then OutOfFuel else cret None
  | S fuel' =>
      _ <-- tick 1 ;;
      if i <? n then
        d <-- c_get "parseWord:val[i]" val i ;;
        if beq d x2e || beq d x60 then
          pre <-- c_take "parseWord:val[:i]" val i ;;
          ch <-- c_search_keyword pre ;;
          if negb (beq ch b_sqli_token_type_none) && negb (beq ch b_sqli_token_type_bare_word)
          then cret (Some (i, ch))
          else c_word_split_loop fuel' val (i + 1) n
        else c_word_split_loop fuel' val (i + 1) n
      else cret None
  end.

Definition c_parse_word : c_lexer := fun s t =>
  _ <-- tick 1 ;;
  let p := pos s in
  rest <-- c_input_from "parseWord" s p ;;
  let limit := if c_token_size <? slen s - p then c_token_size else slen s - p in
  length <-- c_str_len_cspn rest limit word_accept ;;
  t <-- c_assign t b_sqli_token_type_bare_word p length rest ;;
  split <-- c_word_split_loop (Z.to_nat c_token_size) (t_val t) 0 (t_len t) ;;
  match split with
  | Some (i, ch) =>
      t <-- c_assign tok0 ch p i rest ;;
      cret (s, t, p + i)
  | None =>
      length <-- (if length =? c_token_size then
                    (more <-- c_input_from "parseWord:extend" s (p + length) ;;
                     n <-- c_str_len_cspn more (slen s - p - length) word_accept ;;
                     cret (length + n))
                  else cret length) ;;
      if length <? c_token_size then
        v <-- c_take "parseWord:val[:length]" (t_val t) length ;;
        ch <-- c_search_keyword v ;;
        let ch := if beq ch x00 then b_sqli_token_type_bare_word else ch in
        cret (s, set_cat t ch, p + length)
      else cret (s, t, p + length)
  end.

Definition c_parse_tick : c_lexer := fun s t =>
  _ <-- tick 1 ;;
  '(t, np) <-- c_parse_string_core t (input s) (slen s) (pos s) 1 b_byte_tick ;;
  v <-- c_take "parseTick:val[:len]" (t_val t) (t_len t) ;;
  ch <-- c_search_keyword v ;;
  if beq ch b_sqli_token_type_function
  then cret (s, set_cat t b_sqli_token_type_function, np)
  else cret (s, set_cat t b_sqli_token_type_bare_word, np).

Definition c_parse_var : c_lexer := fun s t =>
  _ <-- tick 1 ;;
  let p := pos s + 1 in
  two <-- (if p <? slen s then (a <-- c_at_ "parseVar" s p ;; cret (beq a x40)) else cret false) ;;
  let p := if (two : bool) then p + 1 else p in
  let t := set_count t (if (two : bool) then 2 else 1) in
  special <-- (if p <? slen s then
                 (a <-- c_at_ "parseVar" s p ;;
                  cret (if beq a x60 then 1 else if beq a b_byte_single || beq a b_byte_double then 2 else 0))
               else cret 0) ;;
  if special =? 1 then
    let s := set_pos s p in
    '(s, t, np) <-- c_parse_tick s t ;;
    cret (s, set_cat t b_sqli_token_type_variable, np)
  else if special =? 2 then
    let s := set_pos s p in
    '(s, t, np) <-- c_parse_string s t ;;
    cret (s, set_cat t b_sqli_token_type_variable, np)
  else
    rest <-- c_input_from "parseVar" s p ;;
    length <-- c_str_len_cspn rest (slen s - p) var_accept ;;
    if length =? 0 then
      t <-- c_assign t b_sqli_token_type_variable p 0 rest ;; cret (s, t, p)
    else
      t <-- c_assign t b_sqli_token_type_variable p length rest ;; cret (s, t, p + length).

Definition c_parse_money : c_lexer := fun s t =>
  _ <-- tick 1 ;;
  let p := pos s in
  if p + 1 =? slen s then
    t <-- c_assign t b_sqli_token_type_bare_word p 1 (bs "$") ;; cret (s, t, slen s)
  else
    rest1 <-- c_input_from "parseMoney:input[pos+1:]" s (p + 1) ;;
    length <-- c_str_len_spn rest1 (slen s - p - 1) (bs "0123456789.,") ;;
    if length =? 0 then
      c <-- c_at_ "parseMoney" s (p + 1) ;;
      if beq c x24 then
        body <-- c_input_from "parseMoney:input[pos+2:]" s (p + 2) ;;
        idx <-- c_index body (bs "$$") ;;
        if idx =? -1 then
          t <-- c_assign t b_sqli_token_type_string (p + 2) (slen s - (p + 2)) body ;;
          cret (s, set_close (set_open t x24) x00, slen s)
        else
          t <-- c_assign t b_sqli_token_type_string (p + 2) idx body ;;
          cret (s, set_close (set_open t x24) x24, p + 2 + idx + 2)
      else
        xlen <-- c_str_len_spn rest1 (slen s - p - 1)
                   (bs "abcdefghjiklmnopqrstuvwxyzABCDEFGHIJKLMNOPQRSTUVWXYZ") ;;
        if xlen =? 0 then
          t <-- c_assign t b_sqli_token_type_bare_word p 1 (bs "$") ;; cret (s, t, p + 1)
        else
          no_close <-- (if p + xlen + 1 =? slen s then cret true
                        else (a <-- c_at_ "parseMoney" s (p + xlen + 1) ;; cret (negb (beq a x24)))) ;;
          if (no_close : bool) then
            t <-- c_assign t b_sqli_token_type_bare_word p 1 (bs "$") ;; cret (s, t, p + 1)
          else
            body <-- c_input_from "parseMoney:input[pos+xlen+2:]" s (p + xlen + 2) ;;
            tag <-- c_slice "parseMoney:tag" (input s) p (p + xlen + 2) ;;
            idx <-- c_index body tag ;;
            if idx =? -1 then
              t <-- c_assign t b_sqli_token_type_string (p + xlen + 2) (slen s - p - xlen - 2) body ;;
              cret (s, set_close (set_open t x24) x00, slen s)
            else
              t <-- c_assign t b_sqli_token_type_string (p + xlen + 2) idx body ;;
              cret (s, set_close (set_open t x24) x24, p + xlen + 2 + idx + xlen + 2)
    else
      is_dot <-- (if length =? 1 then (c <-- c_at_ "parseMoney" s (p + 1) ;; cret (beq c x2e)) else cret false) ;;
      if (is_dot : bool) then c_parse_word s t
      else
        rest <-- c_input_from "parseMoney" s p ;;
        t <-- c_assign t b_sqli_token_type_number p (length + 1) rest ;;
        cret (s, t, p + length + 1).

Definition c_parse_number : c_lexer := fun s t =>
  _ <-- tick 1 ;;
  let p0 := pos s in
  c0 <-- c_at_ "parseNumber" s p0 ;;
  digits <-- (if beq c0 x30 && (p0 + 1 <? slen s) then
                (c1 <-- c_at_ "parseNumber" s (p0 + 1) ;;
                 cret (if beq c1 x58 || beq c1 x78 then bs "0123456789ABCDEFabcdef"
                       else if beq c1 x42 || beq c1 x62 then bs "01" else []))
              else cret []) ;;
  match digits with
  | _ :: _ =>
      rest2 <-- c_input_from "parseNumber:input[pos+2:]" s (p0 + 2) ;;
      length <-- c_str_len_spn rest2 (slen s - p0 - 2) digits ;;
      rest <-- c_input_from "parseNumber" s p0 ;;
      if length =? 0 then
        t <-- c_assign t b_sqli_token_type_bare_word p0 2 rest ;; cret (s, t, p0 + 2)
      else
        t <-- c_assign t b_sqli_token_type_number p0 (2 + length) rest ;; cret (s, t, p0 + 2 + length)
  | [] =>
      let start := p0 in
      r <-- c_input_from "parseNumber:digits" s p0 ;;
      n0 <-- c_span is_digit r ;;
      let p := p0 + n0 in
      dot <-- (if p <? slen s then (a <-- c_at_ "parseNumber" s p ;; cret (beq a x2e)) else cret false) ;;
      frac <-- (if (dot : bool) then
                  (r <-- c_input_from "parseNumber:frac" s (p + 1) ;;
                   n1 <-- c_span is_digit r ;;
                   cret (p + 1 + n1))
                else cret p) ;;
      if (dot : bool) && (frac - start =? 1) then
        t <-- c_assign t b_sqli_token_type_dot start 1 (bs ".") ;; cret (s, t, frac)
      else
        let p := frac in
        isE <-- (if p <? slen s then (a <-- c_at_ "parseNumber" s p ;; cret (beq a x45 || beq a x65)) else cret false) ;;
        '(p, have_exp) <--
          (if (isE : bool) then
             let p := p + 1 in
             sign <-- (if p <? slen s then (a <-- c_at_ "parseNumber" s p ;; cret (beq a x2b || beq a x2d)) else cret false) ;;
             let p := if (sign : bool) then p + 1 else p in
             r <-- c_input_from "parseNumber:exp" s p ;;
             n <-- c_span is_digit r ;;
             cret (p + n, 0 <? n)
           else cret (p, false)) ;;
        suffix <-- (if p <? slen s then
                      (a <-- c_at_ "parseNumber" s p ;;
                       cret (beq a x64 || beq a x44 || beq a x66 || beq a x46))
                    else cret false) ;;
        p <-- (if (suffix : bool) then
                 if p + 1 =? slen s then cret (p + 1)
                 else
                   (b <-- c_at_ "parseNumber:suffix" s (p + 1) ;;
                    if is_byte_white b || beq b x3b then cret (p + 1)
                    else if beq b x75 || beq b x55 then cret (p + 1)
                    else cret p)
               else cret p) ;;
        rest <-- c_input_from "parseNumber:input[start:]" s start ;;
        if (isE : bool) && negb have_exp then
          t <-- c_assign t b_sqli_token_type_bare_word start (p - start) rest ;; cret (s, t, p)
        else
          t <-- c_assign t b_sqli_token_type_number start (p - start) rest ;; cret (s, t, p)
  end.

Definition c_parse_ustring : c_lexer := fun s t =>
  _ <-- tick 1 ;;
  let p := pos s in
  is_u <-- (if p + 2 <? slen s then
              (a <-- c_at_ "parseUString" s (p + 1) ;;
               if beq a x26 then (b <-- c_at_ "parseUString" s (p + 2) ;; cret (beq b b_byte_single)) else cret false)
            else cret false) ;;
  if (is_u : bool) then
    let s := set_pos s (p + 2) in
    '(s, t, np) <-- c_parse_string s t ;;
    let t := set_open t x75 in
    let t := if beq (t_close t) b_byte_single then set_close t x75 else t in
    cret (s, t, np)
  else c_parse_word s t.

Definition c_parse_estring : c_lexer := fun s t =>
  _ <-- tick 1 ;;
  let p := pos s in
  not_e <-- (if slen s <=? p + 2 then cret true
             else (a <-- c_at_ "parseEString" s (p + 1) ;; cret (negb (beq a b_byte_single)))) ;;
  if (not_e : bool) then c_parse_word s t
  else
    '(t, np) <-- c_parse_string_core t (input s) (slen s) p 2 b_byte_single ;;
    cret (s, t, np).

Definition c_parse_qstring_core (offset : Z) : c_lexer := fun s t =>
  _ <-- tick 1 ;;
  let p := pos s + offset in
  as_word <-- (if slen s <=? p then cret true
               else
                 (a <-- c_at_ "parseQStringCore" s p ;;
                  if negb (beq a x71) && negb (beq a x51) then cret true
                  else if slen s <=? p + 2 then cret true
                  else (b <-- c_at_ "parseQStringCore" s (p + 1) ;; cret (negb (beq b b_byte_single))))) ;;
  if (as_word : bool) then c_parse_word s t
  else
    ch <-- c_at_ "parseQStringCore:ch" s (p + 2) ;;
    if code ch <? 33 then c_parse_word s t
    else
      let ch := if beq ch x28 then x29 else if beq ch x5b then x5d
                else if beq ch x7b then x7d else if beq ch x3c then x3e else ch in
      body <-- c_input_from "parseQStringCore:input[pos+3:]" s (p + 3) ;;
      idx <-- c_index body [ch; b_byte_single] ;;
      if idx =? -1 then
        t <-- c_assign t b_sqli_token_type_string (p + 3) (slen s - p - 3) body ;;
        cret (s, set_close (set_open t x71) x00, slen s)
      else
        t <-- c_assign t b_sqli_token_type_string (p + 3) idx body ;;
        cret (s, set_close (set_open t x71) x71, p + 3 + idx + 2).

Definition c_parse_qstring : c_lexer := c_parse_qstring_core 0.

Definition c_parse_nqstring : c_lexer := fun s t =>
  _ <-- tick 1 ;;
  let p := pos s in
  is_e <-- (if p + 2 <? slen s then (a <-- c_at_ "parseNqString" s (p + 1) ;; cret (beq a b_byte_single))
            else cret false) ;;
  if (is_e : bool) then c_parse_estring s t else c_parse_qstring_core 1 s t.

Definition c_parse_xb_string (digits : bytes) : c_lexer := fun s t =>
  _ <-- tick 1 ;;
  let p := pos s in
  not_x <-- (if slen s <=? p + 2 then cret true
             else (a <-- c_at_ "parseXString" s (p + 1) ;; cret (negb (beq a b_byte_single)))) ;;
  if (not_x : bool) then c_parse_word s t
  else
    rest2 <-- c_input_from "parseXString:input[pos+2:]" s (p + 2) ;;
    length <-- c_str_len_spn rest2 (slen s - p - 2) digits ;;
    no_close <-- (if slen s <=? p + 2 + length then cret true
                  else (a <-- c_at_ "parseXString" s (p + 2 + length) ;; cret (negb (beq a b_byte_single)))) ;;
    if (no_close : bool) then c_parse_word s t
    else
      rest <-- c_input_from "parseXString" s p ;;
      t <-- c_assign t b_sqli_token_type_number p (length + 3) rest ;;
      cret (s, t, p + 2 + length + 1).

Definition c_parse_xstring : c_lexer := c_parse_xb_string (bs "0123456789abcdefABCDEF").
Definition c_parse_bstring : c_lexer := c_parse_xb_string (bs "01").

Definition c_parse_bword : c_lexer := fun s t =>
  _ <-- tick 1 ;;
  let p := pos s in
  rest <-- c_input_from "parseBWord" s p ;;
  e <-- c_index_byte rest x5d ;;
  if e =? -1 then
    t <-- c_assign t b_sqli_token_type_bare_word p (slen s - p) rest ;; cret (s, t, slen s)
  else
    t <-- c_assign t b_sqli_token_type_bare_word p (e + 1) rest ;; cret (s, t, p + e + 1).

Definition c_run_parser (id : parser_id) : c_lexer :=
  match id with
  | PWhite => c_parse_white | POperator1 => c_parse_operator1 | POperator2 => c_parse_operator2
  | PString => c_parse_string | PHash => c_parse_hash | PMoney => c_parse_money | PByte => c_parse_byte
  | PDash => c_parse_dash | PNumber => c_parse_number | PSlash => c_parse_slash | POther => c_parse_other
  | PVar => c_parse_var | PWord => c_parse_word | PBString => c_parse_bstring | PEString => c_parse_estring
  | PNqString => c_parse_nqstring | PQString => c_parse_qstring | PUString => c_parse_ustring
  | PXString => c_parse_xstring | PBWord => c_parse_bword | PBackSlash => c_parse_backslash
  | PTick => c_parse_tick
  end.

(* ---------- sqli.go tokenize ---------- *)

Fixpoint c_tokenize_loop (fuel : nat) (s : sqlst) (t : token) : cres (bool * token * sqlst) :=
  match fuel with
  | O => if pos s <? slen s then OutOfFuel else cret (false, t, s)
  | S fuel' =>
      _ <-- tick 1 ;;
      if pos s <? slen s then
        ch <-- c_at_ "tokenize:input[pos]" s (pos s) ;;
        '(s, t, np) <-- c_run_parser (dispatch ch) s t ;;
        let s := set_pos s np in
        if negb (beq (t_cat t) x00) then cret (true, t, bump_tokens s)
        else c_tokenize_loop fuel' s t
      else cret (false, t, s)
  end.

Definition c_tokenize (s : sqlst) (cur : token) : cres (bool * token * sqlst) :=
  if slen s =? 0 then cret (false, cur, s)
  else
    let t := tok0 in
    if (pos s =? 0)
       && negb (Z.land (flags s) (Z.lor c_sqli_flag_quote_single c_sqli_flag_quote_double) =? 0)
    then
      '(t, np) <-- c_parse_string_core t (input s) (slen s) 0 0 (flag2delimiter (flags s)) ;;
      cret (true, t, bump_tokens (set_pos s np))
    else c_tokenize_loop (S (List.length (input s))) s t.

Fixpoint c_tokens_loop (fuel : nat) (s : sqlst) (acc : list (token * Z * Z))
  : cres (list (token * Z * Z) * sqlst) :=
  match fuel with
  | O => OutOfFuel
  | S fuel' =>
      _ <-- tick 1 ;;
      let before := pos s in
      '(more, t, s) <-- c_tokenize s tok0 ;;
      if (more : bool) then c_tokens_loop fuel' s ((t, before, pos s) :: acc)
      else cret (rev acc, s)
  end.

Definition c_tokens (inp : bytes) (fl : Z) : cres (list (token * Z * Z) * sqlst) :=
  c_tokens_loop (S (S (List.length inp))) (sqli_init inp fl) [].
