(* CostHtml5: the cost-instrumented twin of Html5.v (the HTML5 tokenizer).

   Every function `f` of Html5.v that does work has a twin `c_f` in the cost
   monad of CostBase.v.  The twin has the same control flow and the same
   checked sites as the original; each primitive is replaced by its
   instrumented version, and `tick 1` is added at the entry of every state
   function and at every iteration of every loop.  Pure scan expressions of the
   model (`span`, `index_byte`, string comparisons) become binds of the
   corresponding instrumented primitive.  Definitions only. *)
From Coq Require Import List ZArith String Bool.
From Coq.Strings Require Import Byte.
From LI Require Import Prelude Base Html5 Cost.CostBase.
From LIGen Require Import Consts.
Import ListNotations.
Local Open Scope Z_scope.
Local Open Scope cost_scope.

(* h.tokenStart = h.s[off:]; one slice expression *)
Definition c_emit (site : string) (h : h5) (off tlen ttype npos : Z) (nstate : h5fn) (close : bool)
  : cres (bool * h5) :=
  _ <-- c_drop site (hs h) off ;;
  cret (true, mkH5 (hs h) npos close nstate off tlen ttype).

(* skipWhite: one slice, the loop over the white bytes (run + the byte that stops it), one index *)
Definition c_skip_white (h : h5) : cres (Z * h5) :=
  rest <-- c_drop "skipWhite" (hs h) (hpos h) ;;
  sp <-- c_span is_skip_white rest ;;
  let p := hpos h + sp in
  if p <? hlen h then (ch <-- c_get "skipWhite" (hs h) p ;; cret (code ch, with_pos h p))
  else cret (c_byte_eof, with_pos h p).

Fixpoint c_bogus2_loop (fuel : nat) (h : h5) (p : Z) : cres (bool * h5) :=
  match fuel with
  | O => OutOfFuel
  | S fuel' =>
      _ <-- tick 1 ;;
      rest <-- c_drop "stateBogusComment2:s[pos:]" (hs h) p ;;
      idx <-- c_index_byte rest b_byte_percent ;;
      if (idx =? -1) || (hlen h <=? p + idx + 1) then
        c_emit "stateBogusComment2" h (hpos h) (hlen h - hpos h) c_html5_type_tag_comment (hlen h) SEOF (is_close h)
      else
        c <-- c_get "stateBogusComment2:s[pos+index+1]" (hs h) (p + idx + 1) ;;
        if negb (beq c b_byte_gt) then c_bogus2_loop fuel' h (p + idx + 1)
        else
          c_emit "stateBogusComment2" h (hpos h) (p + idx - hpos h) c_html5_type_tag_comment
               (p + idx + 2) SData (is_close h)
  end.

Fixpoint c_comment_loop (fuel : nat) (h : h5) (p : Z) : cres (bool * h5) :=
  let eof := c_emit "stateComment" h (hpos h) (hlen h - hpos h) c_html5_type_tag_comment (hpos h) SEOF (is_close h) in
  match fuel with
  | O => OutOfFuel
  | S fuel' =>
      _ <-- tick 1 ;;
      rest <-- c_drop "stateComment:s[pos:]" (hs h) p ;;
      idx <-- c_index_byte rest b_byte_dash ;;
      if (idx =? -1) || (hlen h <? p + idx + 3) then eof
      else
        nulls <-- c_drop "stateComment:nulls" (hs h) (p + idx + 1) ;;
        sp <-- c_span (fun b => beq b x00) nulls ;;
        let offset := 1 + sp in
        if p + idx + offset =? hlen h then eof
        else
          ch <-- c_get "stateComment:s[pos+index+offset]" (hs h) (p + idx + offset) ;;
          if negb (beq ch b_byte_dash) && negb (beq ch b_byte_bang) then c_comment_loop fuel' h (p + idx + 1)
          else
            let offset := offset + 1 in
            if p + idx + offset =? hlen h then eof
            else
              c2 <-- c_get "stateComment:s[pos+index+offset]" (hs h) (p + idx + offset) ;;
              if negb (beq c2 b_byte_gt) then c_comment_loop fuel' h (p + idx + 1)
              else
                let offset := offset + 1 in
                c_emit "stateComment" h (hpos h) (idx + p - hpos h) c_html5_type_tag_comment
                     (p + idx + offset) SData (is_close h)
  end.

Fixpoint c_cdata_loop (fuel : nat) (h : h5) (p : Z) : cres (bool * h5) :=
  match fuel with
  | O => OutOfFuel
  | S fuel' =>
      _ <-- tick 1 ;;
      rest <-- c_drop "stateCData:s[pos:]" (hs h) p ;;
      idx <-- c_index_byte rest b_byte_right_b ;;
      if (idx =? -1) || (hlen h <? p + idx + 3) then
        c_emit "stateCData" h (hpos h) (hlen h - hpos h) c_html5_type_data_text (hpos h) SEOF (is_close h)
      else
        c1 <-- c_get "stateCData:s[pos+index+1]" (hs h) (p + idx + 1) ;;
        c2 <-- (if beq c1 b_byte_right_b then c_get "stateCData:s[pos+index+2]" (hs h) (p + idx + 2) else cret x00) ;;
        if beq c1 b_byte_right_b && beq c2 b_byte_gt then
          c_emit "stateCData" h (hpos h) (p + idx - hpos h) c_html5_type_data_text (p + idx + 3) SData (is_close h)
        else c_cdata_loop fuel' h (p + idx + 1)
  end.

Fixpoint c_before_attr_name_loop (fuel : nat) (h : h5) : cres ban_out :=
  match fuel with
  | O => OutOfFuel
  | S fuel' =>
      _ <-- tick 1 ;;
      if hpos h <? hlen h then
        '(ch, h) <-- c_skip_white h ;;
        if ch =? c_byte_eof then cret (BanDone (false, h))
        else if ch =? c_byte_slash then
          let h := with_pos h (hpos h + 1) in
          cont <-- (if hpos h <? hlen h then
                     (c <-- c_get "stateBeforeAttributeName" (hs h) (hpos h) ;; cret (negb (beq c b_byte_gt)))
                   else cret false) ;;
          if (cont : bool) then c_before_attr_name_loop fuel' h
          else cret (BanCall SSelfClosingStartTag h)
        else if ch =? c_byte_gt then
          r <-- c_emit "stateBeforeAttributeName" h (hpos h) 1 c_html5_type_tag_name_close (hpos h + 1) SData (is_close h) ;;
          cret (BanDone r)
        else cret (BanCall SAttributeName h)
      else cret (BanDone (false, h))
  end.

(* one call of the state function f: one tick at the entry of every state function *)
Fixpoint c_h5_call (depth : nat) (f : h5fn) (h : h5) : cres (bool * h5) :=
  match depth with
  | O => StackOverflow
  | S d =>
      let call := c_h5_call d in
      _ <-- tick 1 ;;
      match f with
      | SEOF => cret (false, h)

      | SBogusComment =>
          rest <-- c_drop "stateBogusComment:s[pos:]" (hs h) (hpos h) ;;
          idx <-- c_index_byte rest b_byte_gt ;;
          if idx =? -1 then
            c_emit "stateBogusComment" h (hpos h) (hlen h - hpos h) c_html5_type_tag_comment (hlen h) SEOF (is_close h)
          else
            c_emit "stateBogusComment" h (hpos h) idx c_html5_type_tag_comment (hpos h + idx + 1) SData (is_close h)

      | SBogusComment2 => c_bogus2_loop (loop_fuel h) h (hpos h)
      | SComment => c_comment_loop (loop_fuel h) h (hpos h)
      | SCData => c_cdata_loop (loop_fuel h) h (hpos h)

      | SDoctype =>
          rest <-- c_drop "stateDoctype:s[pos:]" (hs h) (hpos h) ;;
          idx <-- c_index_byte rest b_byte_gt ;;
          if idx =? -1 then
            c_emit "stateDoctype" h (hpos h) (hlen h - hpos h) c_html5_type_doc_type (hpos h) SEOF (is_close h)
          else
            c_emit "stateDoctype" h (hpos h) idx c_html5_type_doc_type (hpos h + idx + 1) SData (is_close h)

      | SMarkupDeclarationOpen =>
          let remaining := hlen h - hpos h in
          dt <-- (if 7 <=? remaining then
                   (w <-- c_slice "stateMarkupDeclarationOpen:doctype" (hs h) (hpos h) (hpos h + 7) ;;
                    c_linear w (to_lower_cmp (bs "doctype") w))
                 else cret false) ;;
          if (dt : bool) then call SDoctype h
          else
            cd <-- (if 7 <=? remaining then
                     (w <-- c_slice "stateMarkupDeclarationOpen:cdata" (hs h) (hpos h) (hpos h + 7) ;;
                      c_linear w (bytes_eqb w (bs "[CDATA[")))
                   else cret false) ;;
            if (cd : bool) then call SCData (with_pos h (hpos h + 7))
            else
              cm <-- (if 2 <=? remaining then
                       (w <-- c_slice "stateMarkupDeclarationOpen:--" (hs h) (hpos h) (hpos h + 2) ;;
                        c_linear w (bytes_eqb w (bs "--")))
                     else cret false) ;;
              if (cm : bool) then call SComment (with_pos h (hpos h + 2))
              else call SBogusComment h

      | SSelfClosingStartTag =>
          if hlen h <=? hpos h then cret (false, h)
          else
            ch <-- c_get "stateSelfClosingStartTag" (hs h) (hpos h) ;;
            if beq ch b_byte_gt then
              c_emit "stateSelfClosingStartTag:s[pos-1:]" h (hpos h - 1) 2 c_html5_type_tag_name_self_close
                   (hpos h + 1) SData (is_close h)
            else call SBeforeAttributeName h

      | STagNameClose =>
          let np := hpos h + 1 in
          c_emit "stateTagNameClose" h (hpos h) 1 c_html5_type_tag_name_close np
               (if np <? hlen h then SData else SEOF) false

      | STagName =>
          rest <-- c_drop "stateTagName" (hs h) (hpos h) ;;
          sp <-- c_span (fun ch => negb (is_h5_white ch || beq ch b_byte_slash || beq ch b_byte_gt)) rest ;;
          let p := hpos h + sp in
          if p <? hlen h then
            ch <-- c_get "stateTagName" (hs h) p ;;
            if is_h5_white ch then
              c_emit "stateTagName" h (hpos h) (p - hpos h) c_html5_type_tag_name_open (p + 1) SBeforeAttributeName (is_close h)
            else if beq ch b_byte_slash then
              c_emit "stateTagName" h (hpos h) (p - hpos h) c_html5_type_tag_name_open (p + 1) SSelfClosingStartTag (is_close h)
            else (* '>' *)
              if is_close h then
                c_emit "stateTagName" h (hpos h) (p - hpos h) c_html5_type_tag_close (p + 1) SData false
              else
                c_emit "stateTagName" h (hpos h) (p - hpos h) c_html5_type_tag_name_open p STagNameClose false
          else
            c_emit "stateTagName" h (hpos h) (hlen h - hpos h) c_html5_type_tag_name_open (hpos h) SEOF (is_close h)

      | SEndTagOpen =>
          if hlen h <=? hpos h then cret (false, h)
          else
            ch <-- c_get "stateEndTagOpen" (hs h) (hpos h) ;;
            if beq ch b_byte_gt then call SData h
            else if is_letter ch then call STagName h
            else call SBogusComment (with_close h false)

      | STagOpen =>
          if hlen h <=? hpos h then cret (false, h)
          else
            ch <-- c_get "stateTagOpen" (hs h) (hpos h) ;;
            if beq ch b_byte_bang then call SMarkupDeclarationOpen (with_pos h (hpos h + 1))
            else if beq ch b_byte_slash then call SEndTagOpen (with_close (with_pos h (hpos h + 1)) true)
            else if beq ch b_byte_question then call SBogusComment (with_pos h (hpos h + 1))
            else if beq ch b_byte_percent then call SBogusComment2 (with_pos h (hpos h + 1))
            else if is_letter ch then call STagName h
            else if beq ch b_byte_null then call STagName h
            else if hpos h =? 0 then call SData h
            else
              c_emit "stateTagOpen:s[pos-1:]" h (hpos h - 1) 1 c_html5_type_data_text (hpos h) SData (is_close h)

      | SData =>
          rest <-- c_drop "stateData:s[pos:]" (hs h) (hpos h) ;;
          idx <-- c_index_byte rest b_byte_lt ;;
          if idx =? -1 then
            r <-- c_emit "stateData" h (hpos h) (hlen h - hpos h) c_html5_type_data_text (hpos h) SEOF (is_close h) ;;
            if hlen h - hpos h =? 0 then cret (false, snd r) else cret r
          else
            r <-- c_emit "stateData" h (hpos h) idx c_html5_type_data_text (hpos h + idx + 1) STagOpen (is_close h) ;;
            if idx =? 0 then call STagOpen (snd r) else cret r

      | SAttributeValueNoQuote =>
          rest <-- c_drop "stateAttributeValueNoQuote" (hs h) (hpos h) ;;
          sp <-- c_span (fun ch => negb (is_h5_white ch || beq ch b_byte_gt)) rest ;;
          let p := hpos h + sp in
          if p <? hlen h then
            ch <-- c_get "stateAttributeValueNoQuote" (hs h) p ;;
            if is_h5_white ch then
              c_emit "stateAttributeValueNoQuote" h (hpos h) (p - hpos h) c_html5_type_attr_value (p + 1) SBeforeAttributeName (is_close h)
            else
              c_emit "stateAttributeValueNoQuote" h (hpos h) (p - hpos h) c_html5_type_attr_value p STagNameClose (is_close h)
          else
            c_emit "stateAttributeValueNoQuote" h (hpos h) (hlen h - hpos h) c_html5_type_attr_value (hpos h) SEOF (is_close h)

      | SBeforeAttributeValue =>
          '(ch, h) <-- c_skip_white h ;;
          if ch =? c_byte_eof then cret (false, with_state h SEOF)
          else if ch =? c_byte_double then call SAttributeValueDoubleQuote h
          else if ch =? c_byte_single then call SAttributeValueSingleQuote h
          else if ch =? c_byte_tick then call SAttributeValueBackQuote h
          else call SAttributeValueNoQuote h

      | SAfterAttributeName =>
          '(ch, h) <-- c_skip_white h ;;
          if ch =? c_byte_eof then cret (false, h)
          else if ch =? c_byte_slash then call SSelfClosingStartTag (with_pos h (hpos h + 1))
          else if ch =? c_byte_equals then call SBeforeAttributeValue (with_pos h (hpos h + 1))
          else if ch =? c_byte_gt then call STagNameClose h
          else call SAttributeName h

      | SAttributeName =>
          rest <-- (if hpos h + 1 <=? hlen h then c_drop "stateAttributeName:pos+1" (hs h) (hpos h + 1) else cret []) ;;
          sp <-- c_span (fun ch => negb (is_h5_white ch || beq ch b_byte_slash
                                          || beq ch b_byte_equals || beq ch b_byte_gt)) rest ;;
          let p := hpos h + 1 + sp in
          if p <? hlen h then
            ch <-- c_get "stateAttributeName" (hs h) p ;;
            if is_h5_white ch then
              c_emit "stateAttributeName" h (hpos h) (p - hpos h) c_html5_type_attr_name (p + 1) SAfterAttributeName (is_close h)
            else if beq ch b_byte_slash then
              c_emit "stateAttributeName" h (hpos h) (p - hpos h) c_html5_type_attr_name (p + 1) SSelfClosingStartTag (is_close h)
            else if beq ch b_byte_equals then
              c_emit "stateAttributeName" h (hpos h) (p - hpos h) c_html5_type_attr_name (p + 1) SBeforeAttributeValue (is_close h)
            else
              c_emit "stateAttributeName" h (hpos h) (p - hpos h) c_html5_type_attr_name p STagNameClose (is_close h)
          else
            c_emit "stateAttributeName" h (hpos h) (hlen h - hpos h) c_html5_type_attr_name (hlen h) SEOF (is_close h)

      | SBeforeAttributeName =>
          r <-- c_before_attr_name_loop (loop_fuel h) h ;;
          match r with
          | BanDone r => cret r
          | BanCall f h => call f h
          end

      | SAfterAttributeValueQuoted =>
          if hlen h <=? hpos h then cret (false, h)
          else
            ch <-- c_get "stateAfterAttributeValueQuotedState" (hs h) (hpos h) ;;
            if is_h5_white ch then call SBeforeAttributeName (with_pos h (hpos h + 1))
            else if beq ch b_byte_slash then call SSelfClosingStartTag (with_pos h (hpos h + 1))
            else if beq ch b_byte_gt then
              c_emit "stateAfterAttributeValueQuotedState" h (hpos h) 1 c_html5_type_tag_name_close (hpos h + 1) SData (is_close h)
            else call SBeforeAttributeName h

      | SAttributeValueSingleQuote | SAttributeValueDoubleQuote | SAttributeValueBackQuote =>
          let q := match f with
                   | SAttributeValueSingleQuote => b_byte_single
                   | SAttributeValueDoubleQuote => b_byte_double
                   | _ => b_byte_tick
                   end in
          let h := if 0 <? hpos h then with_pos h (hpos h + 1) else h in
          rest <-- c_drop "stateAttributeValueQuote:s[pos:]" (hs h) (hpos h) ;;
          idx <-- c_index_byte rest q ;;
          if idx =? -1 then
            c_emit "stateAttributeValueQuote" h (hpos h) (hlen h - hpos h) c_html5_type_attr_value (hpos h) SEOF (is_close h)
          else
            c_emit "stateAttributeValueQuote" h (hpos h) idx c_html5_type_attr_value (hpos h + idx + 1)
                 SAfterAttributeValueQuoted (is_close h)
      end
  end.

(* h.next() *)
Definition c_h5_next (h : h5) : cres (bool * h5) := c_h5_call h5_depth (hstate h) h.

Fixpoint c_h5_tokens_loop (fuel : nat) (h : h5) (acc : list (Z * Z * Z)) : cres (list (Z * Z * Z)) :=
  match fuel with
  | O => OutOfFuel
  | S fuel' =>
      _ <-- tick 1 ;;
      '(more, h) <-- c_h5_next h ;;
      if (more : bool) then c_h5_tokens_loop fuel' h ((tok_type h, tok_off h, tok_len h) :: acc)
      else cret (rev acc)
  end.

Definition c_h5_tokens (s : bytes) (fl : Z) : cres (list (Z * Z * Z)) :=
  c_h5_tokens_loop (h5_fuel s) (h5_init s fl) [].
