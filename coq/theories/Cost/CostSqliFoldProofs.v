(* CostSqliFoldProofs: erasure and cost bounds for the instrumented folding pass,
   fingerprint, blacklist / whitelist, check and IsSQLi (C09).  See C09sqli.v for
   the statement in plain words. *)
From Coq Require Import List ZArith String Bool Lia ZifyBool.
From Coq.Strings Require Import Byte.
From LI Require Import Prelude Base SqliLex SqliFold Cost.CostBase Cost.CostSqliLex Cost.CostSqliLexProofs
  Cost.CostSqliFold
  Proofs.BaseFacts Proofs.Wp Proofs.LexBase Proofs.LexSpec Proofs.TokensSpec
  Proofs.FoldBase Proofs.FoldSpec Proofs.FoldLoop.
From LIGen Require Import Tables Dispatch Consts.
Import ListNotations.
Local Open Scope Z_scope.

(* ====================================================================== *)
(* Part (a): erasure                                                      *)
(* ====================================================================== *)

Ltac erf_unfold :=
  unfold c_wget, c_wset, c_wtrunc, c_val_prefix, val_prefix, c_name_is_function_like,
         c_blacklist, c_reparse_as_mysql;
  er_unfold.

Ltac erf_step :=
  cbv zeta;
  lazymatch goal with
  | |- erase (match ?x with Continue _ => _ | Return _ _ => _ end) = _ => destruct x
  | |- erase (match ?x with Again _ => _ | Break _ => _ | Ret _ _ => _ end) = _ => destruct x
  | |- erase (match ?x with inl _ => _ | inr _ => _ end) = _ => destruct x
  | |- _ => er_step
  end.

Ltac erf := erf_unfold; repeat erf_step.

Lemma erase_c_wget site w i : erase (c_wget site w i) = wget site w i.
Proof. apply erase_charge. Qed.
Lemma erase_c_wset site w i t : erase (c_wset site w i t) = wset site w i t.
Proof. apply erase_charge. Qed.
Lemma erase_c_wtrunc site w n : erase (c_wtrunc site w n) = wtrunc site w n.
Proof. apply erase_charge. Qed.
Lemma erase_c_val_prefix site t : erase (c_val_prefix site t) = val_prefix site t.
Proof. apply erase_charge. Qed.

#[export] Hint Resolve erase_c_is_unary_op erase_c_is_arithmetic_op : cerase.

Lemma erase_c_merge a b : erase (c_merge a b) = merge a b.
Proof. unfold c_merge, merge. erf. Qed.
#[export] Hint Resolve erase_c_merge : cerase.

Lemma erase_c_fetch fuel : forall want f, erase (c_fetch fuel want f) = fetch fuel want f.
Proof.
  induction fuel as [|fuel IH]; intros want f; cbn [c_fetch fetch]; [reflexivity|]. erf.
Qed.
#[export] Hint Resolve erase_c_fetch : cerase.

Lemma erase_c_fetch_n want f : erase (c_fetch_n want f) = fetch_n want f.
Proof. apply erase_c_fetch. Qed.
#[export] Hint Resolve erase_c_fetch_n : cerase.

Lemma erase_c_five_special w : erase (c_five_special w) = five_special w.
Proof. unfold c_five_special, five_special. erf. Qed.
#[export] Hint Resolve erase_c_five_special : cerase.

Lemma erase_c_name_is_function_like v :
  erase (c_name_is_function_like v) = Ok (name_is_function_like v).
Proof. reflexivity. Qed.

Lemma erase_c_rules3 f : erase (c_rules3 f) = rules3 f.
Proof. unfold c_rules3, rules3. erf. Qed.
#[export] Hint Resolve erase_c_rules3 : cerase.

Lemma erase_c_rules2 cf3 f3 f :
  (forall g, erase (cf3 g) = f3 g) -> erase (c_rules2 cf3 f) = rules2 f3 f.
Proof. intros H3. unfold c_rules2, rules2. erf. Qed.

Lemma erase_c_fold_iter f : erase (c_fold_iter f) = fold_iter f.
Proof.
  unfold c_fold_iter, fold_iter. erf.
  apply erase_c_rules2. intros g. apply erase_c_fetch_n.
Qed.
#[export] Hint Resolve erase_c_fold_iter : cerase.

Lemma erase_c_fold_finish f : erase (c_fold_finish f) = fold_finish f.
Proof. unfold c_fold_finish, fold_finish. erf. Qed.
#[export] Hint Resolve erase_c_fold_finish : cerase.

Lemma erase_c_fold_steps k : forall f, erase (c_fold_steps k f) = fold_steps k f.
Proof. induction k as [|k IH]; intros f; cbn [c_fold_steps fold_steps]; [reflexivity|]. erf. Qed.
#[export] Hint Resolve erase_c_fold_steps : cerase.

Lemma erase_c_fold_loop fuel : forall f, erase (c_fold_loop fuel f) = fold_loop fuel f.
Proof. induction fuel as [|fuel IH]; intros f; cbn [c_fold_loop fold_loop]; [reflexivity|]. erf. Qed.
#[export] Hint Resolve erase_c_fold_loop : cerase.

Lemma erase_c_skip_loop fuel : forall s cur, erase (c_skip_loop fuel s cur) = skip_loop fuel s cur.
Proof. induction fuel as [|fuel IH]; intros s cur; cbn [c_skip_loop skip_loop]; [reflexivity|]. erf. Qed.
#[export] Hint Resolve erase_c_skip_loop : cerase.

Lemma erase_c_fold s : erase (c_fold s) = fold s.
Proof. unfold c_fold, fold. erf. Qed.
#[export] Hint Resolve erase_c_fold : cerase.

Lemma erase_c_fp_loop : forall w acc, erase (c_fp_loop w acc) = Ok (fp_loop w acc).
Proof.
  induction w as [|t w IH]; intros acc; cbn [c_fp_loop fp_loop]; [reflexivity|].
  unfold tick. rewrite erase_ok_bind. destruct (cat_is t b_sqli_token_type_evil); [reflexivity|apply IH].
Qed.

Lemma erase_c_sqli_fingerprint s fl : erase (c_sqli_fingerprint s fl) = sqli_fingerprint s fl.
Proof.
  unfold c_sqli_fingerprint, sqli_fingerprint. erf.
  rewrite erase_cbind, erase_c_fp_loop. cbn [bind]. erf.
Qed.
#[export] Hint Resolve erase_c_sqli_fingerprint : cerase.

Lemma erase_c_blacklist fp : erase (c_blacklist fp) = Ok (blacklist fp).
Proof. reflexivity. Qed.

Lemma erase_c_not_whitelist s fp w : erase (c_not_whitelist s fp w) = not_whitelist s fp w.
Proof. unfold c_not_whitelist, not_whitelist. erf. Qed.
#[export] Hint Resolve erase_c_not_whitelist : cerase.

Lemma erase_c_check_fingerprint s fp w : erase (c_check_fingerprint s fp w) = check_fingerprint s fp w.
Proof. unfold c_check_fingerprint, check_fingerprint. erf. Qed.
#[export] Hint Resolve erase_c_check_fingerprint : cerase.

Lemma erase_c_reparse_as_mysql s : erase (c_reparse_as_mysql s) = Ok (reparse_as_mysql s).
Proof. reflexivity. Qed.

Lemma erase_c_check s : erase (c_check s) = check s.
Proof. unfold c_check, check. erf. Qed.
#[export] Hint Resolve erase_c_check : cerase.

Theorem erase_c_is_sqli inp : erase (c_is_sqli inp) = is_sqli inp.
Proof. unfold c_is_sqli, is_sqli. erf. Qed.


(* ====================================================================== *)
(* Part (b): one iteration of the main loop of fold                       *)
(* ====================================================================== *)

(* all the cost analysis needs to know about a window token: its value and its
   recorded length are at most 31 bytes *)
Definition tsmall (t : token) : Prop := len (t_val t) <= 31 /\ t_len t <= 31.

Definition cinv (f : fstate) : Prop := st_wf (f_s f) /\ Forall tsmall (f_win f).

Lemma Forall_nth_error {A} (P : A -> Prop) l i x : Forall P l -> nth_error l i = Some x -> P x.
Proof. intros H N. rewrite Forall_forall in H. apply H. eapply nth_error_In; exact N. Qed.

Lemma wtok_tsmall hi t : wtok hi t -> tsmall t.
Proof. intros (A & B & _). unfold tsmall. lia. Qed.

Lemma finv_cinv inp fl f : finv inp fl f -> cinv f.
Proof.
  intros (I1 & I2 & I3 & I4 & _). split; [exact I3|].
  eapply Forall_impl; [|exact I4]. intros t. apply wtok_tsmall.
Qed.

Lemma tsmall_set_cat t c : tsmall t -> tsmall (set_cat t c).
Proof. exact (fun H => H). Qed.

(* the tokenizer's share of the potential of a scanner state: what a scan of the
   rest of the input costs at most, including 16 per byte for the loops that
   call the tokenizer (each call that returns a token consumes at least one byte) *)
Definition TP (s : sqlst) : Z := 134 * (slen s - pos s) + PHI s (pos s).

Definition same_scan (s s' : sqlst) : Prop := input s' = input s /\ pos s' = pos s.

Lemma TP_same s s' : same_scan s s' -> TP s' = TP s.
Proof. intros [A B]. unfold TP, PHI, slen. rewrite A, B. reflexivity. Qed.

Lemma TP_nonneg s : st_wf s -> 0 <= TP s.
Proof.
  intros W. unfold st_wf in W. unfold TP, PHI, KL.
  pose proof (CostSqliLexProofs.phi_nonneg (skipn (Z.to_nat (pos s)) (input s))). lia.
Qed.

Lemma same_scan_refl s : same_scan s s.
Proof. split; reflexivity. Qed.

(* one call of the tokenizer: its cost is paid by the drop of TP, with 16 per
   consumed byte to spare *)
Lemma c_tokenize_TP s cur :
  st_wf s ->
  cwlp (c_tokenize s cur)
       (fun r c => tokenize_post s r /\ st_wf (snd r) /\
                   c + TP (snd r) + 16 * (pos (snd r) - pos s) <= TP s + 10).
Proof.
  intros W. eapply cwlp_conseq.
  { eapply cwlp_with_wp; [apply erase_c_tokenize|apply (tokenize_spec s cur W)|apply (c_tokenize_cost s cur W)]. }
  intros [[more t] s1] c [P Hc]. cbn [snd] in *. split; [exact P|].
  destruct P as (A & B & C & D & E & F).
  split; [unfold st_wf, slen in *; rewrite A; lia|].
  unfold TP, PHI, slen in *. rewrite A. lia.
Qed.

(* ---------- window primitives ---------- *)

Lemma cwlp_wget site w i (Q : token -> Z -> Prop) :
  (forall t, 0 <= i -> nth_error w (Z.to_nat i) = Some t -> Q t 1) -> cwlp (c_wget site w i) Q.
Proof.
  intros H. apply cwlp_charge. intros t E. unfold wget in E. destruct (0 <=? i) eqn:Ei; [|discriminate].
  destruct (nth_error w (Z.to_nat i)) eqn:N; inversion E; subst. apply H; [lia|reflexivity].
Qed.

Lemma cwlp_wset site w i t (Q : list token -> Z -> Prop) :
  (0 <= i < wlen w -> Q (replace_nth w (Z.to_nat i) t) 1) -> cwlp (c_wset site w i t) Q.
Proof.
  intros H. apply cwlp_charge. intros w' E. unfold wset in E.
  destruct ((0 <=? i) && (i <? Z.of_nat (List.length w))) eqn:Ei; inversion E; subst. apply H. unfold wlen. lia.
Qed.

Lemma cwlp_wtrunc site w n (Q : list token -> Z -> Prop) :
  (0 <= n <= wlen w -> Q (firstn (Z.to_nat n) w) 1) -> cwlp (c_wtrunc site w n) Q.
Proof.
  intros H. apply cwlp_charge. intros w' E. unfold wtrunc in E.
  destruct ((0 <=? n) && (n <=? Z.of_nat (List.length w))) eqn:Ei; inversion E; subst. apply H. unfold wlen. lia.
Qed.

Ltac simp_f :=
  unfold upd, bump_folds, set_stats in *;
  cbn [f_s f_win f_left f_more f_last input flags pos st slen] in *.

Ltac fw_step :=
  lazymatch goal with
  | |- cwlp (c_wget _ ?w _) _ =>
      apply cwlp_wget; let t := fresh "t" in let N := fresh "N" in
      intros t ? N;
      try match goal with HF : Forall tsmall w |- _ => pose proof (Forall_nth_error _ _ _ _ HF N) end
  | |- cwlp (c_wset _ _ _ _) _ => apply cwlp_wset; intros ?
  | |- cwlp (c_wtrunc _ _ _) _ => apply cwlp_wtrunc; intros ?
  | |- cwlp (c_is_unary_op _) _ =>
      eapply cwlp_conseq; [ apply c_is_unary_op_cost | intros ? ? ?; cbv beta ]
  | |- cwlp (c_is_arithmetic_op _) _ =>
      eapply cwlp_conseq; [ apply c_is_arithmetic_op_cost | intros ? ? ?; cbv beta ]
  | |- cwlp (match ?x with Some _ => _ | None => _ end) _ => destruct x
  | |- cwlp (match ?x with Continue _ => _ | Return _ _ => _ end) _ => destruct x
  | |- _ => cw_step
  end.

Ltac fw_run :=
  unfold c_val_prefix, c_name_is_function_like, c_blacklist, c_reparse_as_mysql; cw_prim_unfold;
  cbv zeta; repeat (fw_step; cbv zeta).

(* boolean facts about classes play no role in the cost; keep the integer comparisons *)
Ltac clear_cat :=
  repeat match goal with
         | H : @eq bool ?l _ |- _ =>
             lazymatch l with
             | Z.ltb _ _ => fail
             | Z.leb _ _ => fail
             | Z.eqb _ _ => fail
             | negb (Z.eqb _ _) => fail
             | _ => clear H
             end
         end.

Ltac fw_leaf :=
  clear_cat; cbv beta; unfold tsmall, index_byte_cost, index_cost in *; cbv zeta; simp_f;
  repeat match goal with H : _ /\ _ |- _ => destruct H end;
  note_facts; eval_lits; norm_len;
  repeat match goal with H : context [if ?c then _ else _] |- _ => destruct c eqn:? end;
  repeat match goal with |- context [if ?c then _ else _] => destruct c eqn:? end;
  repeat split; try reflexivity; try lia.

(* a sub-computation whose result only matters through its cost *)
Ltac stage K :=
  apply cwlp_bind; apply (cwlp_conseq _ (fun _ c => c <= K));
  [ fw_run; fw_leaf | intros ? ? ? ].

Definition out_s (r : step_out) : sqlst :=
  match r with Continue f => f_s f | Return _ f => f_s f end.

Lemma c_merge_cost a b : cwlp (c_merge a b) (fun _ c => c <= 36).
Proof.
  unfold c_merge. change c_token_size with 32. fw_run; fw_leaf.
  all: rewrite !len_app; change (len [x20]) with 1; norm_len; lia.
Qed.

Definition step_cost (f : fstate) (K : Z) (r : step_out) (c : Z) : Prop :=
  c <= K /\ same_scan (f_s f) (out_s r).

(* the three-token rules: constant *)
Lemma c_rules3_cost f : Forall tsmall (f_win f) -> cwlp (c_rules3 f) (step_cost f 76).
Proof.
  intros HF. unfold c_rules3, step_cost, same_scan.
  fw_run; fw_leaf.
Qed.

(* ---------- the fetch loops ---------- *)

Lemma tok_at_tsmall inp lo hi t : 0 <= lo -> hi <= len inp -> tok_at inp lo hi t -> tsmall t.
Proof.
  intros Hlo Hhi T. pose proof (tok_at_len _ _ _ _ Hlo Hhi T) as L.
  destruct T as (_ & _ & _ & D & _). change c_token_size with 32 in D. unfold tsmall. lia.
Qed.

(* the tokenizer calls of a fetch are paid by the drop of TP; what remains is the
   final test of the loop condition and the call that finds the end of the input *)
Lemma c_fetch_cost fuel : forall want f,
  cinv f ->
  cwlp (c_fetch fuel want f)
       (fun f' c => cinv f' /\ c + TP (f_s f') <= TP (f_s f) + (if f_more f then 12 else 1)).
Proof.
  induction fuel as [|fuel IH]; intros want f Hinv; cbn [c_fetch]; [apply cwlp_fuel|].
  apply cwlp_bind, cwlp_tick. cbv zeta.
  destruct (f_more f && (wlen (f_win f) <=? c_max_tokens) && (wlen (f_win f) - f_left f <? want)) eqn:G.
  2:{ apply cwlp_ret. split; [exact Hinv|]. destruct (f_more f); lia. }
  apply andb_true_iff in G. destruct G as [G _]. apply andb_true_iff in G. destruct G as [G _]. rewrite G.
  destruct Hinv as [W HF].
  apply cwlp_bind. eapply cwlp_conseq; [apply (c_tokenize_TP (f_s f) tok0 W)|].
  intros [[more t] s1] c1 (P & W1 & Hc). cbn [snd] in W1, Hc. destruct P as (A & B & C & D & E & F).
  destruct more.
  - destruct (E eq_refl) as (E1 & E2 & E3).
    destruct (cat_is t b_sqli_token_type_comment).
    + eapply cwlp_conseq; [apply IH; split; [exact W1|exact HF]|].
      intros f' c2 [I2 Hc2]. cbn [f_s f_more] in Hc2. split; [exact I2|lia].
    + eapply cwlp_conseq.
      { apply IH. split; [exact W1|]. cbn [f_win]. apply Forall_app. split; [exact HF|].
        constructor; [|constructor]. unfold st_wf, slen in *.
        eapply tok_at_tsmall; [| |exact E2]; lia. }
      intros f' c2 [I2 Hc2]. cbn [f_s f_more] in Hc2. split; [exact I2|lia].
  - eapply cwlp_conseq; [apply IH; split; [exact W1|exact HF]|].
    intros f' c2 [I2 Hc2]. cbn [f_s f_more] in Hc2. split; [exact I2|lia].
Qed.

Lemma c_fetch_n_cost want f :
  cinv f -> cwlp (c_fetch_n want f) (fun f' c => cinv f' /\ c + TP (f_s f') <= TP (f_s f) + 12).
Proof.
  intros H. eapply cwlp_conseq; [apply c_fetch_cost; exact H|].
  intros f' c [A B]. split; [exact A|]. destruct (f_more f); lia.
Qed.

(* cost of a step, the tokenizer calls being paid by the drop of TP *)
Definition scan_cost (f : fstate) (K : Z) (r : step_out) (c : Z) : Prop :=
  c + TP (out_s r) <= TP (f_s f) + K.

(* the fall-through of the two-token switch *)
Lemma c_three_cost f0 :
  cinv f0 ->
  cwlp (f <-- c_fetch_n 3 f0 ;;
        if wlen (f_win f) - f_left f <? 3
        then cret (Continue (mkF (f_s f) (f_win f) (wlen (f_win f)) (f_more f) (f_last f)))
        else c_rules3 f)%cost
       (scan_cost f0 88).
Proof.
  intros H. apply cwlp_bind. eapply cwlp_conseq; [apply c_fetch_n_cost; exact H|].
  intros f c1 [[W HF] Hc1]. unfold scan_cost.
  destruct (wlen (f_win f) - f_left f <? 3).
  - apply cwlp_ret. cbn [out_s f_s]. lia.
  - eapply cwlp_conseq; [apply c_rules3_cost; exact HF|].
    intros r c2 [Hc2 S]. rewrite (TP_same _ _ S). lia.
Qed.

Ltac sleaf :=
  clear_cat; cbv beta; unfold scan_cost in *; cbn [out_s] in *; simp_f;
  unfold TP, PHI in *; simp_st; fw_leaf.

Ltac cinv_tac :=
  split; simp_f;
  [ assumption
  | repeat first [ apply Forall_replace_nth | apply Forall_firstn ]; try assumption;
    try (apply tsmall_set_cat; assumption) ].

Ltac three_tac :=
  eapply cwlp_conseq;
  [ apply c_three_cost; cinv_tac
  | let r := fresh "r" in let c := fresh "c" in let Hc := fresh "Hc" in
    intros r c Hc; sleaf ].

Ltac sstage K :=
  apply cwlp_bind; apply (cwlp_conseq _ (fun _ c => c <= K));
  [ fw_run; sleaf | intros ? ? ? ].

Ltac f2_step :=
  lazymatch goal with
  | |- cwlp (cbind (c_fetch_n 3 _) _) _ => three_tac
  | |- _ => fw_step
  end.

Ltac f2_run :=
  unfold c_val_prefix, c_name_is_function_like; cw_prim_unfold; cbv zeta; repeat (f2_step; cbv zeta).

(* the two-token rules, with the fall-through into the three-token rules *)
Lemma c_rules2_cost f : cinv f -> cwlp (c_rules2 (c_fetch_n 3) f) (scan_cost f 655).
Proof.
  intros [W HF]. unfold c_rules2.
  apply cwlp_bind, cwlp_tick. apply cwlp_bind. fw_step. apply cwlp_bind. fw_step. cbv zeta.
  fw_step; [fw_run; sleaf|]. fw_step; [fw_run; sleaf|].
  sstage 5. fw_step; [fw_run; sleaf|].
  sstage 5. fw_step; [fw_run; sleaf|].
  apply cwlp_bind. eapply cwlp_conseq; [apply c_merge_cost|]. intros m cm Hm. cbv beta.
  destruct m; [fw_run; sleaf|].
  sstage 2. fw_step; [fw_run; sleaf|].
  sstage 353. fw_step; [fw_run; sleaf|].
  sstage 65. fw_step; [fw_run; sleaf|].
  sstage 65.
  f2_run; sleaf.
Qed.

Definition iter_s (r : iter_out) : sqlst :=
  match r with Again f => f_s f | Break f => f_s f | Ret _ f => f_s f end.

(* (b) one iteration of the main loop: at most 676 steps on top of the tokenizer
   calls of its fetches, which are paid by the drop of TP *)
Theorem c_fold_iter_cost f :
  cinv f -> cwlp (c_fold_iter f) (fun r c => c + TP (iter_s r) <= TP (f_s f) + 676).
Proof.
  intros [W HF]. unfold c_fold_iter. change c_max_tokens with 5.
  apply cwlp_bind, cwlp_tick. cbv zeta.
  apply cwlp_bind. apply (cwlp_conseq _ (fun f1 c => c <= 8 /\ cinv f1 /\ f_s f1 = f_s f)).
  { unfold c_five_special. fw_run.
    all: clear_cat; cbv beta; (split; [lia|]); (split; [cinv_tac|reflexivity]). }
  intros f1 c1 (Hc1 & I1 & E1). cbv beta.
  fw_step.
  { apply cwlp_ret. cbn [iter_s f_s]. rewrite E1. lia. }
  apply cwlp_bind. eapply cwlp_conseq; [apply c_fetch_n_cost; exact I1|]. intros f2 c2 [I2 Hc2]. cbv beta.
  fw_step.
  { apply cwlp_ret. cbn [iter_s f_s]. rewrite E1 in Hc2. lia. }
  apply cwlp_bind. eapply cwlp_conseq; [apply c_rules2_cost; exact I2|]. intros r c3 Hc3.
  unfold scan_cost in Hc3. rewrite E1 in Hc2.
  destruct r; apply cwlp_ret; cbn [iter_s out_s] in *; lia.
Qed.

(* ====================================================================== *)
(* Part (c): the folding pass as a whole                                  *)
(* ====================================================================== *)

Lemma c_fold_finish_cost f : cwlp (c_fold_finish f) (fun r c => c <= 1 /\ f_s (snd r) = f_s f).
Proof. unfold c_fold_finish. fw_run; cbv beta; cbn [snd f_s]; (split; [lia|reflexivity]). Qed.

(* the potential of a folder state: the tokenizer's share plus 676 per remaining
   iteration of the main loop *)
Definition G (f : fstate) : Z := TP (f_s f) + 676 * FoldBase.phi f.

Lemma finv_wf inp fl f : finv inp fl f -> st_wf (f_s f).
Proof. intros (_ & _ & W & _). exact W. Qed.

Lemma c_fold_steps_cost inp fl k : forall f,
  finv inp fl f ->
  cwlp (c_fold_steps k f)
       (fun r c => match r with
                   | inl f' => finv inp fl f' /\ c + G f' <= G f
                   | inr _ => c <= G f + 677
                   end).
Proof.
  induction k as [|k IH]; intros f Hinv; cbn [c_fold_steps].
  - apply cwlp_ret. split; [exact Hinv|lia].
  - pose proof (FoldLoop.phi_nonneg inp fl f Hinv) as Hp.
    apply cwlp_bind. eapply cwlp_conseq.
    { eapply cwlp_with_wp; [apply erase_c_fold_iter|apply (fold_iter_spec inp fl f Hinv)|].
      apply c_fold_iter_cost. eapply finv_cinv; exact Hinv. }
    intros r c1 [Hok Hc1]. destruct r as [f'|f'|n f']; unfold iter_ok in Hok; cbn [iter_s] in Hc1.
    + destruct Hok as [A B]. eapply cwlp_conseq; [apply IH; exact A|].
      intros [f2|x] c2; unfold G in *.
      * intros [C D]. split; [exact C|lia].
      * intros D. lia.
    + pose proof (TP_nonneg _ (finv_wf _ _ _ Hok)) as Ht.
      apply cwlp_bind. eapply cwlp_conseq; [apply c_fold_finish_cost|].
      intros x c2 [Hc2 _]. apply cwlp_ret. unfold G. lia.
    + destruct Hok as [A B]. pose proof (TP_nonneg _ (finv_wf _ _ _ A)) as Ht.
      apply cwlp_ret. unfold G. lia.
Qed.

Lemma c_fold_loop_cost inp fl fuel : forall f,
  finv inp fl f -> cwlp (c_fold_loop fuel f) (fun _ c => c <= G f + 677).
Proof.
  induction fuel as [|fuel IH]; intros f Hinv; cbn [c_fold_loop]; [apply cwlp_fuel|].
  apply cwlp_bind. eapply cwlp_conseq; [apply (c_fold_steps_cost inp fl fold_chunk f Hinv)|].
  intros [f'|x] c1.
  - intros [A B]. eapply cwlp_conseq; [apply IH; exact A|]. intros r c2 Hc2. cbv beta in *. lia.
  - intros B. apply cwlp_ret. lia.
Qed.

(* the initial skip loop: every call of the tokenizer but the last consumes a byte *)
Lemma c_skip_loop_cost fuel : forall s cur,
  st_wf s -> cwlp (c_skip_loop fuel s cur) (fun r c => c + TP (snd r) <= TP s + 16).
Proof.
  induction fuel as [|fuel IH]; intros s cur W; cbn [c_skip_loop]; [apply cwlp_fuel|].
  apply cwlp_bind, cwlp_tick.
  apply cwlp_bind. eapply cwlp_conseq; [apply (c_tokenize_TP s cur W)|].
  intros [[more t] s1] c1 (P & W1 & Hc). cbn [snd] in W1, Hc. destruct P as (A & B & C & D & E & F).
  apply cwlp_bind. eapply cwlp_conseq; [apply c_is_unary_op_cost|]. intros u cu Hu. cbv beta in Hu.
  destruct (negb _).
  - apply cwlp_ret. cbn [snd]. lia.
  - destruct more.
    + destruct (E eq_refl) as (E1 & _).
      eapply cwlp_conseq; [apply IH; exact W1|]. intros r c2 Hc2. cbv beta in *. lia.
    + apply cwlp_ret. cbn [snd]. lia.
Qed.

Lemma c_fold_cost inp fl s :
  input s = inp -> flags s = fl -> st_wf s ->
  cwlp (c_fold s) (fun _ c => c <= TP s + 81120 * len inp + 86546).
Proof.
  intros E1 E2 W. unfold c_fold. apply cwlp_bind.
  eapply cwlp_conseq.
  { eapply cwlp_with_wp; [apply erase_c_skip_loop| |apply c_skip_loop_cost; exact W].
    apply (skip_loop_spec inp fl); try assumption; [reflexivity|]. unfold st_wf, slen, len in *. lia. }
  intros [[more t] s1] c1 [(A & B & C & D) Hc1]. cbn [snd] in Hc1.
  pose proof (len_nonneg inp) as Hl.
  destruct more; cbn [negb].
  2:{ apply cwlp_ret. pose proof (TP_nonneg _ C). lia. }
  specialize (D eq_refl).
  set (f0 := mkF s1 [t] 0 true tok0).
  assert (Hinv : finv inp fl f0).
  { unfold finv, f0, mark. cbn [f_s f_win f_left f_last]. change (cat_is tok0 cC) with false. cbn [wlen List.length].
    splits; try assumption; try lia; try discriminate. constructor; [exact D|constructor]. }
  assert (Hphi : FoldBase.phi f0 <= 120 * len inp + 127).
  { unfold FoldBase.phi, f0. cbn [f_s f_win f_left f_more b2z rank_sum]. unfold wlen. cbn [List.length].
    pose proof (rank_range (t_cat t)). unfold st_wf, slen in *. rewrite A in *. lia. }
  apply cwlp_bind. eapply cwlp_conseq; [apply (c_fold_loop_cost inp fl _ f0 Hinv)|].
  intros [n f'] c2 Hc2. unfold G in Hc2. change (f_s f0) with s1 in Hc2.
  fw_run. lia.
Qed.

(* (c) one folding pass over a fresh state is linear in the length of the input *)
Theorem c_fold_linear inp fl :
  cwlp (c_fold (sqli_init inp fl)) (fun _ c => c <= 81326 * len inp + 86546).
Proof.
  eapply cwlp_conseq; [apply (c_fold_cost inp (flags (sqli_init inp fl))); [reflexivity|reflexivity|apply sqli_init_wf]|].
  intros r c Hc. cbv beta.
  unfold TP, PHI, KL, slen, sqli_init in Hc. cbn [input pos] in Hc. change (Z.to_nat 0) with 0%nat in Hc.
  cbn [skipn] in Hc. pose proof (phi_bound inp). lia.
Qed.

(* ====================================================================== *)
(* Part (d): fingerprint, blacklist / whitelist, check, IsSQLi            *)
(* ====================================================================== *)

Lemma c_fp_loop_cost : forall w acc,
  cwlp (c_fp_loop w acc)
       (fun r c => c <= wlen w + 1 /\
                   match r with Some fp => len fp <= len acc + wlen w | None => True end).
Proof.
  induction w as [|t w IH]; intros acc; cbn [c_fp_loop]; apply cwlp_bind, cwlp_tick.
  - apply cwlp_ret. unfold wlen, len. rewrite rev_length. cbn [List.length]. lia.
  - destruct (cat_is t b_sqli_token_type_evil).
    + apply cwlp_ret. pose proof (wlen_nonneg (t :: w)). lia.
    + eapply cwlp_conseq; [apply IH|]. intros r c [A B]. cbv beta.
      unfold wlen in *. cbn [List.length]. split; [lia|].
      destruct r; [|exact I]. rewrite len_cons in B. lia.
Qed.

(* one pass: reset, fold, fingerprint *)
Lemma c_sqli_fingerprint_cost s fl :
  cwlp (c_sqli_fingerprint s fl)
       (fun r c => let '(fp, w, s') := r in
                   input s' = input s /\ len fp <= 6 /\ c <= 81326 * len (input s) + 86557).
Proof.
  unfold c_sqli_fingerprint, reset.
  apply cwlp_bind. eapply cwlp_conseq.
  { eapply cwlp_with_wp; [apply erase_c_fold| |apply c_fold_linear].
    apply (fold_spec (input s) (flags (sqli_init (input s) fl))); [reflexivity|reflexivity|apply sqli_init_wf]. }
  intros [w s1] c1 [(A & _ & _ & D & _) Hc1]. cbv zeta.
  pose proof (wlen_nonneg w) as Hw.
  apply cwlp_bind. apply (cwlp_conseq _ (fun w' c => c <= 2 /\ wlen w' = wlen w)).
  { fw_run; cbv beta; rewrite ?wlen_replace_nth; (split; [lia|reflexivity]). }
  intros w' c2 [Hc2 Ew].
  apply cwlp_bind. eapply cwlp_conseq; [apply c_fp_loop_cost|]. intros r c3 [Hc3 Hr].
  destruct r as [fp|].
  - apply cwlp_ret. rewrite len_nil in Hr.
  splits; [exact A|lia|lia].
  - fw_run. cbv beta.
 change (len [b_sqli_token_type_evil]) with 1. splits; [exact A|lia|lia].
Qed.

Lemma index_byte_cost_le s c : index_byte_cost s c <= len s + 1.
Proof.
  unfold index_byte_cost. pose proof (index_byte_range s c). pose proof (len_nonneg s). cbv zeta.
  destruct (index_byte s c <? 0) eqn:E; lia.
Qed.

(* the whitelist: one scan of the input for "sp_password", the rest is constant *)
Lemma c_not_whitelist_cost s fp w :
  len fp <= 6 -> cwlp (c_not_whitelist s fp w) (fun _ c => c <= len (input s) + 28).
Proof.
  intros Hfp. unfold c_not_whitelist. cbv zeta. pose proof (len_nonneg (input s)) as Hl.
  apply cwlp_bind. apply (cwlp_conseq _ (fun _ c => c <= len (input s) + 13)).
  { fw_run; fw_leaf. }
  intros early c1 Hc1.
  fw_run; fw_leaf.
Qed.

Lemma c_check_fingerprint_cost s fp w :
  len fp <= 6 -> cwlp (c_check_fingerprint s fp w) (fun _ c => c <= len (input s) + 36).
Proof.
  intros Hfp. unfold c_check_fingerprint, c_blacklist. apply cwlp_bind, cwlp_pure.
  pose proof (len_nonneg (input s)) as Hl.
  destruct (blacklist fp).
  - eapply cwlp_conseq; [apply c_not_whitelist_cost; exact Hfp|]. intros r c Hc. cbv beta in *. lia.
  - apply cwlp_ret. lia.
Qed.

(* one pass of the cascade: fingerprint, then blacklist / whitelist; leaves the
   verdict-true leaf and the continuation *)
Ltac pass :=
  apply cwlp_bind; eapply cwlp_conseq; [ apply c_sqli_fingerprint_cost | ];
  let fp := fresh "fp" in let w := fresh "w" in let s' := fresh "s" in let c := fresh "c" in
  let A := fresh "A" in let B := fresh "B" in let C := fresh "C" in
  intros [[fp w] s'] c (A & B & C); cbv beta;
  apply cwlp_bind; eapply cwlp_conseq; [ apply c_check_fingerprint_cost; exact B | ];
  let v := fresh "v" in let cv := fresh "cv" in let Hv := fresh "Hv" in
  intros v cv Hv; cbv beta in Hv;
  repeat match goal with H : input _ = input _ |- _ => progress (rewrite H in * ) end;
  destruct v; [ apply cwlp_ret; lia | ].

(* check: at most five passes, two scans for a quote, two mode tests *)
Lemma c_check_cost s :
  cwlp (c_check s) (fun _ c => c <= 406637 * len (input s) + 432969).
Proof.
  unfold c_check. pose proof (len_nonneg (input s)) as Hl.
  destruct (slen s =? 0); [apply cwlp_ret; lia|]. cbv zeta.
  pose proof (index_byte_cost_le (input s) b_byte_single) as Hs.
  pose proof (index_byte_cost_le (input s) b_byte_double) as Hd.
  unfold c_reparse_as_mysql, c_index_byte.
  repeat lazymatch goal with
         | |- cwlp (cbind (c_sqli_fingerprint _ _) _) _ => pass
         | |- cwlp (cbind (pure_c _ _) _) _ => apply cwlp_bind, cwlp_pure
         | |- cwlp (if ?c then _ else _) _ => destruct c
         | |- cwlp (cret _) _ => apply cwlp_ret; lia
         end.
Qed.

(* (d) IsSQLi is linear in the length of the input *)
Theorem c_is_sqli_linear inp : cost_of (c_is_sqli inp) <= 406637 * len inp + 432969.
Proof.
  pose proof (len_nonneg inp) as Hl.
  destruct (c_is_sqli inp) as [[r c]| | |] eqn:E; cbn [cost_of]; try lia.
  unfold c_is_sqli in E.
  assert (H : cwlp (c_is_sqli inp) (fun _ c => c <= 406637 * len inp + 432969)).
  { unfold c_is_sqli. apply cwlp_bind. eapply cwlp_conseq; [apply c_check_cost|].
    intros [b fp] c1 Hc1. change (input (sqli_init inp 0)) with inp in Hc1.
    destruct b; apply cwlp_ret; lia. }
  exact (H _ _ E).
Qed.

Theorem c_fold_linear_cost inp fl : cost_of (c_fold (sqli_init inp fl)) <= 81326 * len inp + 86546.
Proof.
  pose proof (len_nonneg inp) as Hl.
  destruct (c_fold (sqli_init inp fl)) as [[r c]| | |] eqn:E; cbn [cost_of]; try lia.
  exact (c_fold_linear inp fl _ _ E).
Qed.



(* ---------- the same facts together with totality ---------- *)

From LI Require Import Proofs.CheckSpec.

(* IsSQLi returns, the instrumented IsSQLi returns the same value, and the number
   of steps it reports is at most 406637 * len + 432969 *)
Theorem c_is_sqli_total_linear inp :
  exists b fp c, c_is_sqli inp = Ok ((b, fp), c) /\ is_sqli inp = Ok (b, fp) /\
                 c <= 406637 * len inp + 432969.
Proof.
  destruct (is_sqli_total inp) as (b & fp & E).
  pose proof (erase_c_is_sqli inp) as Er. rewrite E in Er.
  destruct (erase_Ok_inv _ _ Er) as [c Ec]. exists b, fp, c. split; [exact Ec|]. split; [exact E|].
  pose proof (c_is_sqli_linear inp) as L. rewrite Ec in L. exact L.
Qed.

(* one folding pass, in the same form *)
Theorem c_fold_total_linear inp fl :
  exists w s c, c_fold (sqli_init inp fl) = Ok ((w, s), c) /\ fold (sqli_init inp fl) = Ok (w, s) /\
                c <= 81326 * len inp + 86546.
Proof.
  destruct (wp_inv _ _ (fold_spec inp (flags (sqli_init inp fl)) (sqli_init inp fl) eq_refl eq_refl (sqli_init_wf inp fl)))
    as [[w s] [E _]].
  pose proof (erase_c_fold (sqli_init inp fl)) as Er. rewrite E in Er.
  destruct (erase_Ok_inv _ _ Er) as [c Ec]. exists w, s, c. split; [exact Ec|]. split; [exact E|].
  pose proof (c_fold_linear_cost inp fl) as L. rewrite Ec in L. exact L.
Qed.

(* one iteration of the main loop of fold, without the triple notation: under the
   window invariant, an iteration that ends in state f' costs at most 676 steps
   plus the drop of the tokenizer potential TP (the tokenizer calls of its fetches) *)
Theorem c_fold_iter_bound inp fl f r c :
  finv inp fl f -> c_fold_iter f = Ok (r, c) ->
  c + TP (iter_s r) <= TP (f_s f) + 676.
Proof. intros Hinv E. exact (c_fold_iter_cost f (finv_cinv _ _ _ Hinv) _ _ E). Qed.

(* the tokenizer potential of a fresh state is at most 206 per byte *)
Lemma TP_init inp fl : 0 <= TP (sqli_init inp fl) <= 206 * len inp.
Proof.
  split; [apply TP_nonneg, sqli_init_wf|].
  unfold TP, PHI, KL, slen, sqli_init. cbn [input pos]. change (Z.to_nat 0) with 0%nat.
  cbn [skipn]. pose proof (phi_bound inp). lia.
Qed.

(* the number of iterations of the main loop: k iterations that all continue lower
   the folder potential by at least k (FoldLoop.fold_steps_spec), and the
   potential of the state the loop starts in is at most 120 * len + 127 *)
Theorem c_fold_steps_bound inp fl k f r c :
  finv inp fl f -> c_fold_steps k f = Ok (r, c) ->
  match r with
  | inl f' => c + TP (f_s f') + 676 * FoldBase.phi f' <= TP (f_s f) + 676 * FoldBase.phi f
  | inr _ => c <= TP (f_s f) + 676 * FoldBase.phi f + 677
  end.
Proof.
  intros Hinv E. pose proof (c_fold_steps_cost inp fl k f Hinv _ _ E) as H. cbv beta in H.
  destruct r; unfold G in H; [destruct H as [_ H]|]; lia.
Qed.
