(* Extraction of the executable model for the correspondence check.
   ExtrOcamlBasic only (bool, option, unit, list, prod, sumbool, sumor map to
   the OCaml types of the same shape); no Extract Constant; byte, positive, N,
   Z, nat, string stay Coq inductives. *)
From Coq Require Import List ZArith String.
From Coq Require Extraction ExtrOcamlBasic.
From LI Require Import Prelude Base SqliLex SqliFold Html5 Xss.
From LI Require Import Cost.CostBase Cost.CostHtml5 Cost.CostXss Cost.CostSqliLex Cost.CostSqliFold.
Extraction Language OCaml.
Extraction "model.ml"
  Base.code Base.byte_of_Z Base.len
  SqliLex.tokens SqliFold.fold_tokens SqliFold.fingerprint_ctx SqliFold.is_sqli
  Html5.h5_tokens Xss.xss_ctx Xss.is_xss Xss.html_decode_byte_at
  Xss.is_black_url Xss.is_black_tag Xss.is_black_attr
  SqliLex.search_keyword
  CostXss.c_is_xss CostSqliFold.c_is_sqli.
