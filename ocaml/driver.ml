(* Driver for the extracted model: reads one hex-encoded input per line
   ("-" = empty string) and prints the canonical observable lines selected by
   the kinds given as first argument (see DESIGN.md Appendix B). *)
module M = Model

let rec z_of_pos_int n : M.positive =
  if n = 1 then M.XH
  else if n land 1 = 0 then M.XO (z_of_pos_int (n lsr 1))
  else M.XI (z_of_pos_int (n lsr 1))

let z_of_int n : M.z = if n = 0 then M.Z0 else if n > 0 then M.Zpos (z_of_pos_int n) else M.Zneg (z_of_pos_int (-n))

let rec int_of_pos = function
  | M.XH -> 1
  | M.XO p -> 2 * int_of_pos p
  | M.XI p -> 2 * int_of_pos p + 1

let int_of_z = function M.Z0 -> 0 | M.Zpos p -> int_of_pos p | M.Zneg p -> - (int_of_pos p)

let byte_tab : M.byte array = Array.init 256 (fun i -> M.byte_of_Z (z_of_int i))
let int_of_byte (b : M.byte) : int = int_of_z (M.code b)

let bytes_of_string (s : string) : M.byte list =
  let rec go i acc = if i < 0 then acc else go (i - 1) (byte_tab.(Char.code s.[i]) :: acc) in
  go (String.length s - 1) []

let hex_of_bytes (l : M.byte list) : string =
  match l with
  | [] -> "-"
  | _ ->
    let b = Buffer.create 64 in
    List.iter (fun x -> Buffer.add_string b (Printf.sprintf "%02x" (int_of_byte x))) l;
    Buffer.contents b

let unhex (s : string) : string =
  if s = "-" then ""
  else begin
    let n = String.length s / 2 in
    String.init n (fun i -> Char.chr (int_of_string ("0x" ^ String.sub s (2 * i) 2)))
  end

let outcome (r : 'a M.res) (f : 'a -> string) : string =
  match r with
  | M.Ok a -> f a
  | M.Panic _ -> "PANIC"
  | M.OutOfFuel -> "OUTOFFUEL"
  | M.StackOverflow -> "STACKOVERFLOW"

let b2i b = if b then 1 else 0

let sql_modes = [9; 17; 10; 18; 12; 20]
let h5_ctxs = [0; 1; 2; 3; 4]

let tok_fields (t : M.token) : string =
  Printf.sprintf "%d %d %d %s %d %d %d" (int_of_byte t.M.t_cat) (int_of_z t.M.t_pos) (int_of_z t.M.t_len)
    (hex_of_bytes t.M.t_val) (int_of_byte t.M.t_open) (int_of_byte t.M.t_close) (int_of_z t.M.t_count)

let line_T inp fl =
  Printf.sprintf "SQ %d %s" fl
    (outcome (M.tokens inp (z_of_int fl)) (fun (l, s) ->
         let parts = List.map (fun ((t, b), a) ->
             Printf.sprintf "%s %d %d" (tok_fields t) (int_of_z b) (int_of_z a)) l in
         Printf.sprintf "%d %s E %d %d %d %d" (List.length l) (String.concat " " parts)
           (int_of_z s.M.pos) (int_of_z s.M.st.M.n_ddx) (int_of_z s.M.st.M.n_hash) (int_of_z s.M.st.M.n_tokens)))

let line_F inp fl =
  Printf.sprintf "SF %d %s" fl
    (outcome (M.fold_tokens inp (z_of_int fl)) (fun (l, s) ->
         let parts = List.map tok_fields l in
         Printf.sprintf "%d %s S %d %d %d %d" (List.length l) (String.concat " " parts)
           (int_of_z s.M.st.M.n_folds) (int_of_z s.M.st.M.n_tokens) (int_of_z s.M.st.M.n_ddx) (int_of_z s.M.st.M.n_hash)))

let line_P inp fl =
  Printf.sprintf "SP %d %s" fl
    (outcome (M.fingerprint_ctx inp (z_of_int fl)) (fun (((fp, bl), v), st) ->
         Printf.sprintf "%s %d %d %d %d %d %d" (hex_of_bytes fp) (b2i bl) (b2i v)
           (int_of_z st.M.n_tokens) (int_of_z st.M.n_ddx) (int_of_z st.M.n_hash) (int_of_z st.M.n_folds)))

let line_V inp =
  Printf.sprintf "SV %s" (outcome (M.is_sqli inp) (fun (b, fp) -> Printf.sprintf "%d %s" (b2i b) (hex_of_bytes fp)))

let line_H inp ctx =
  Printf.sprintf "HT %d %s" ctx
    (outcome (M.h5_tokens inp (z_of_int ctx)) (fun l ->
         let parts = List.map (fun ((ty, off), ln) ->
             Printf.sprintf "%d %d %d" (int_of_z ty) (int_of_z off) (int_of_z ln)) l in
         Printf.sprintf "%d %s" (List.length l) (String.concat " " parts)))

let line_X inp ctx =
  Printf.sprintf "HV %d %s" ctx (outcome (M.xss_ctx inp (z_of_int ctx)) (fun b -> string_of_int (b2i b)))

let line_HX inp = Printf.sprintf "HX %s" (outcome (M.is_xss inp) (fun b -> string_of_int (b2i b)))

let line_D inp =
  Printf.sprintf "HD %s" (outcome (M.html_decode_byte_at inp) (fun (v, c) -> Printf.sprintf "%d %d" (int_of_z v) (int_of_z c)))

let line_U inp = Printf.sprintf "HB url %s" (outcome (M.is_black_url inp) (fun b -> string_of_int (b2i b)))
let line_G inp = Printf.sprintf "HB tag %d" (b2i (M.is_black_tag inp))
let line_A inp = Printf.sprintf "HB attr %d" (int_of_z (M.is_black_attr inp))
let line_K inp = Printf.sprintf "KW %d" (int_of_byte (M.search_keyword inp))

(* cost semantics (C09): number of elementary steps of the instrumented model *)
let line_CX inp = Printf.sprintf "CX %s" (outcome (M.c_is_xss inp) (fun (_, c) -> string_of_int (int_of_z c)))
let line_CS inp = Printf.sprintf "CS %s" (outcome (M.c_is_sqli inp) (fun (_, c) -> string_of_int (int_of_z c)))

let () =
  let kinds = if Array.length Sys.argv > 1 then Sys.argv.(1) else "TFPVHX" in
  let has c = String.contains kinds c in
  let out = Buffer.create 65536 in
  let flush () = print_string (Buffer.contents out); Buffer.clear out in
  let p s = Buffer.add_string out s; Buffer.add_char out '\n' in
  (try
     while true do
       let line = input_line stdin in
       let line = String.trim line in
       if line <> "" then begin
         let inp = bytes_of_string (unhex line) in
         p ("I " ^ line);
         if has 'T' then List.iter (fun fl -> p (line_T inp fl)) sql_modes;
         if has 'F' then List.iter (fun fl -> p (line_F inp fl)) sql_modes;
         if has 'P' then List.iter (fun fl -> p (line_P inp fl)) sql_modes;
         if has 'V' then p (line_V inp);
         if has 'H' then List.iter (fun c -> p (line_H inp c)) h5_ctxs;
         if has 'X' then begin List.iter (fun c -> p (line_X inp c)) h5_ctxs; p (line_HX inp) end;
         if has 'D' then p (line_D inp);
         if has 'U' then p (line_U inp);
         if has 'G' then p (line_G inp);
         if has 'A' then p (line_A inp);
         if has 'K' then p (line_K inp);
         if has 'C' then begin p (line_CX inp); p (line_CS inp) end;
         if Buffer.length out > 60000 then flush ()
       end
     done
   with End_of_file -> ());
  flush ()
